//! Miri arm of C13: the strict-chunking scenario of the SimIO engine, interpreted by Miri so
//! that an out-of-bounds or uninitialised read inside ReadAdapter's unsafe copies is reported
//! even when the returned values happen to compare equal.
//! usage: cargo +nightly miri run -- <seed> <first run> <number of runs>

#[path = "../../sim/wfsim/src/c13.rs"]
#[allow(dead_code)]
mod c13;
#[path = "../../sim/wfsim/src/simio.rs"]
#[allow(dead_code)]
mod simio;

use simcore::{Chooser, Ctx, RunInfo, Tier};

fn main() {
    let a: Vec<String> = std::env::args().collect();
    let seed: u64 = a.get(1).and_then(|v| v.parse().ok()).unwrap_or(1);
    let first: u64 = a.get(2).and_then(|v| v.parse().ok()).unwrap_or(0);
    let n: u64 = a.get(3).and_then(|v| v.parse().ok()).unwrap_or(64);
    let mut bad = 0;
    for run in first..first + n {
        let info = RunInfo { run, seed, tier: Tier::Quick };
        let mut ch = Chooser::record(simcore::rng::stream(seed, "strict", run));
        let mut ctx = Ctx::new(false);
        c13::scenario(c13::Mode::Strict, &info, &mut ch, &mut ctx);
        for v in &ctx.violations {
            println!("MIRI-ARM violation run={run} class={} detail={}", v.class, v.detail);
            bad += 1;
        }
    }
    println!("miri arm: seed {seed}, runs {first}..{} interpreted, {bad} oracle violations", first + n);
    if bad > 0 {
        std::process::exit(1);
    }
}
