//! Parallel-iterator subset. Every indexed iterator is a random-access source of items; the
//! driver asks the simulator how to cut 0..len into leaves and in which order to run them.

use std::marker::PhantomData;
use std::mem::ManuallyDrop;
use std::ops::Range;

use crate::sim;

// SCHEDULE DRIVER
// ------------------------------------------------------------------------------------------------

/// Leaves (index ranges) in execution order.
fn plan(len: usize, min_len: usize) -> Vec<(usize, usize)> {
    sim::note_par_op();
    if len == 0 {
        return vec![];
    }
    let p = sim::pool_size();
    let min_len = min_len.max(1);
    let max_leaves = (len / min_len).min(4 * p).max(1);
    if max_leaves == 1 || !sim::installed() {
        sim::note_task();
        return vec![(0, len)];
    }
    let k = 1 + sim::pick("par.leaves", max_leaves as u64) as usize;
    let mut bounds: Vec<usize> = Vec::with_capacity(k + 1);
    bounds.push(0);
    if k > 1 {
        if sim::pick("par.cutstyle", 2) == 0 {
            // even split (what rayon's halving produces for power-of-two leaf counts)
            for i in 1..k {
                bounds.push((i as u128 * len as u128 / k as u128) as usize);
            }
        } else {
            // arbitrary cut points, every leaf keeps at least min_len items
            let spare = len - k * min_len;
            let mut cuts: Vec<usize> =
                (0..k - 1).map(|_| sim::pick("par.cut", spare as u64 + 1) as usize).collect();
            cuts.sort_unstable();
            for (i, c) in cuts.iter().enumerate() {
                bounds.push((i + 1) * min_len + c);
            }
        }
    }
    bounds.push(len);
    let mut leaves: Vec<(usize, usize)> =
        bounds.windows(2).map(|w| (w[0], w[1])).filter(|(a, b)| b > a).collect();
    let n = leaves.len();
    if n > 1 {
        match sim::pick("par.order", 5) {
            0 => {},
            1 => leaves.reverse(),
            2 => {
                let (mut ev, od): (Vec<_>, Vec<_>) =
                    leaves.iter().copied().enumerate().partition(|(i, _)| i % 2 == 0);
                ev.extend(od);
                leaves = ev.into_iter().map(|(_, l)| l).collect();
            },
            3 => {
                let last = leaves.pop().unwrap();
                leaves.insert(0, last);
            },
            _ => {
                for i in 0..n - 1 {
                    let j = i + sim::pick("par.perm", (n - i) as u64) as usize;
                    leaves.swap(i, j);
                }
            },
        }
        for (i, w) in leaves.windows(2).enumerate() {
            let _ = i;
            if w[1].0 < w[0].0 {
                sim::note_reorder();
            }
        }
    }
    for _ in 0..leaves.len() {
        sim::note_task();
    }
    leaves
}

/// # Safety
/// `ra_get(i)` is called at most once per index by the drivers in this module; implementors
/// may hand out `&mut` references or move values out on that assumption.
pub unsafe trait RandomAccess {
    type RaItem;
    fn ra_len(&self) -> usize;
    fn ra_min_len(&self) -> usize {
        1
    }
    /// # Safety
    /// `i < ra_len()`, each index at most once.
    unsafe fn ra_get(&self, i: usize) -> Self::RaItem;
}

fn drive<I: RandomAccess>(it: &I, mut f: impl FnMut(usize, I::RaItem) -> bool) {
    let leaves = plan(it.ra_len(), it.ra_min_len());
    for (s, e) in leaves {
        for i in s..e {
            // SAFETY: leaves partition 0..len, so every index is visited at most once
            if !f(i, unsafe { it.ra_get(i) }) {
                return;
            }
        }
    }
}

// TRAITS
// ------------------------------------------------------------------------------------------------

pub trait ParallelIterator: Sized {
    type Item;

    fn for_each<OP>(self, op: OP)
    where
        OP: Fn(Self::Item) + Sync + Send;

    fn find_any<P>(self, predicate: P) -> Option<Self::Item>
    where
        P: Fn(&Self::Item) -> bool + Sync + Send;

    #[doc(hidden)]
    fn sim_collect_vec(self) -> Vec<Self::Item>;

    fn map<F, R>(self, map_op: F) -> Map<Self, F>
    where
        F: Fn(Self::Item) -> R + Sync + Send,
    {
        Map { base: self, f: map_op }
    }

    fn collect<C>(self) -> C
    where
        C: FromParallelIterator<Self::Item>,
    {
        C::from_par_iter(self)
    }

    // ---- the rest of rayon's commonly used surface, so that a change to winterfell that uses it
    // still builds against the shim. Items are produced under the taped schedule
    // (`sim_collect_vec` runs the leaves in taped order and places results by index); adaptors
    // that rayon implements lazily are evaluated eagerly into an `Unindexed` stage, reductions
    // combine the per-leaf partial results in a taped grouping.

    fn filter<P>(self, p: P) -> Unindexed<Self::Item>
    where
        P: Fn(&Self::Item) -> bool + Sync + Send,
    {
        Unindexed { items: self.sim_collect_vec().into_iter().filter(|x| p(x)).collect() }
    }

    fn filter_map<P, R>(self, p: P) -> Unindexed<R>
    where
        P: Fn(Self::Item) -> Option<R> + Sync + Send,
    {
        Unindexed { items: self.sim_collect_vec().into_iter().filter_map(p).collect() }
    }

    fn flat_map<F, PI>(self, f: F) -> Unindexed<PI::Item>
    where
        F: Fn(Self::Item) -> PI + Sync + Send,
        PI: IntoParallelIterator,
    {
        let mut out = vec![];
        for x in self.sim_collect_vec() {
            out.extend(f(x).into_par_iter().sim_collect_vec());
        }
        Unindexed { items: out }
    }

    fn flat_map_iter<F, SI>(self, f: F) -> Unindexed<SI::Item>
    where
        F: Fn(Self::Item) -> SI + Sync + Send,
        SI: IntoIterator,
    {
        Unindexed { items: self.sim_collect_vec().into_iter().flat_map(f).collect() }
    }

    fn inspect<OP>(self, op: OP) -> Unindexed<Self::Item>
    where
        OP: Fn(&Self::Item) + Sync + Send,
    {
        let items = self.sim_collect_vec();
        for x in &items {
            op(x);
        }
        Unindexed { items }
    }

    fn cloned<'a, T>(self) -> Unindexed<T>
    where
        T: 'a + Clone,
        Self: ParallelIterator<Item = &'a T>,
    {
        Unindexed { items: self.sim_collect_vec().into_iter().cloned().collect() }
    }

    fn copied<'a, T>(self) -> Unindexed<T>
    where
        T: 'a + Copy,
        Self: ParallelIterator<Item = &'a T>,
    {
        Unindexed { items: self.sim_collect_vec().into_iter().copied().collect() }
    }

    fn chain<C>(self, other: C) -> Unindexed<Self::Item>
    where
        C: IntoParallelIterator<Item = Self::Item>,
    {
        let mut items = self.sim_collect_vec();
        items.extend(other.into_par_iter().sim_collect_vec());
        Unindexed { items }
    }

    fn for_each_with<T, OP>(self, init: T, op: OP)
    where
        T: Clone + Send,
        OP: Fn(&mut T, Self::Item) + Sync + Send,
    {
        // one clone of `init` per leaf, as rayon hands one to every split
        let items = self.sim_collect_vec();
        for (a, b) in group_plan(items.len()) {
            let _ = (a, b);
        }
        let mut it = items.into_iter();
        for (a, b) in group_plan(it.len()) {
            let mut state = init.clone();
            for _ in a..b {
                if let Some(x) = it.next() {
                    op(&mut state, x);
                }
            }
        }
    }

    fn try_for_each<OP, E>(self, op: OP) -> Result<(), E>
    where
        OP: Fn(Self::Item) -> Result<(), E> + Sync + Send,
    {
        // every item may have been started before an error is observed; the error reported is
        // the one of the taped choice among the failing items
        let errs: Vec<E> = self.sim_collect_vec().into_iter().filter_map(|x| op(x).err()).collect();
        if errs.is_empty() {
            Ok(())
        } else {
            let k = sim::pick("try.which_error", errs.len() as u64) as usize;
            Err(errs.into_iter().nth(k).unwrap())
        }
    }

    fn reduce<OP, ID>(self, identity: ID, op: OP) -> Self::Item
    where
        OP: Fn(Self::Item, Self::Item) -> Self::Item + Sync + Send,
        ID: Fn() -> Self::Item + Sync + Send,
    {
        let items = self.sim_collect_vec();
        let groups = group_plan(items.len());
        let mut it = items.into_iter();
        let mut partials: Vec<Self::Item> = vec![];
        for (a, b) in groups {
            let mut acc = identity();
            for _ in a..b {
                if let Some(x) = it.next() {
                    acc = op(acc, x);
                }
            }
            partials.push(acc);
        }
        partials.into_iter().fold(identity(), |a, b| op(a, b))
    }

    fn reduce_with<OP>(self, op: OP) -> Option<Self::Item>
    where
        OP: Fn(Self::Item, Self::Item) -> Self::Item + Sync + Send,
    {
        self.sim_collect_vec().into_iter().reduce(op)
    }

    fn fold<T, ID, F>(self, identity: ID, fold_op: F) -> Unindexed<T>
    where
        F: Fn(T, Self::Item) -> T + Sync + Send,
        ID: Fn() -> T + Sync + Send,
    {
        // one partial result per leaf: HOW MANY there are is a scheduling decision
        let items = self.sim_collect_vec();
        let groups = group_plan(items.len());
        let mut it = items.into_iter();
        let mut partials = vec![];
        for (a, b) in groups {
            let mut acc = identity();
            for _ in a..b {
                if let Some(x) = it.next() {
                    acc = fold_op(acc, x);
                }
            }
            partials.push(acc);
        }
        Unindexed { items: partials }
    }

    fn sum<S>(self) -> S
    where
        S: std::iter::Sum<Self::Item> + std::iter::Sum<S> + Send,
    {
        let items = self.sim_collect_vec();
        let groups = group_plan(items.len());
        let mut it = items.into_iter();
        let mut partials: Vec<S> = vec![];
        for (a, b) in groups {
            partials.push(it.by_ref().take(b - a).sum());
        }
        partials.into_iter().sum()
    }

    fn product<P>(self) -> P
    where
        P: std::iter::Product<Self::Item> + std::iter::Product<P> + Send,
    {
        let items = self.sim_collect_vec();
        let groups = group_plan(items.len());
        let mut it = items.into_iter();
        let mut partials: Vec<P> = vec![];
        for (a, b) in groups {
            partials.push(it.by_ref().take(b - a).product());
        }
        partials.into_iter().product()
    }

    fn count(self) -> usize {
        self.sim_collect_vec().len()
    }

    fn any<P>(self, p: P) -> bool
    where
        P: Fn(Self::Item) -> bool + Sync + Send,
    {
        self.sim_collect_vec().into_iter().any(p)
    }

    fn all<P>(self, p: P) -> bool
    where
        P: Fn(Self::Item) -> bool + Sync + Send,
    {
        self.sim_collect_vec().into_iter().all(p)
    }

    fn min(self) -> Option<Self::Item>
    where
        Self::Item: Ord,
    {
        self.sim_collect_vec().into_iter().min()
    }

    fn max(self) -> Option<Self::Item>
    where
        Self::Item: Ord,
    {
        self.sim_collect_vec().into_iter().max()
    }

    fn min_by_key<K: Ord + Send, F>(self, f: F) -> Option<Self::Item>
    where
        F: Fn(&Self::Item) -> K + Sync + Send,
    {
        self.sim_collect_vec().into_iter().min_by_key(f)
    }

    fn max_by_key<K: Ord + Send, F>(self, f: F) -> Option<Self::Item>
    where
        F: Fn(&Self::Item) -> K + Sync + Send,
    {
        self.sim_collect_vec().into_iter().max_by_key(f)
    }

    fn find_first<P>(self, predicate: P) -> Option<Self::Item>
    where
        P: Fn(&Self::Item) -> bool + Sync + Send,
    {
        self.sim_collect_vec().into_iter().find(|x| predicate(x))
    }

    fn find_map_any<P, R>(self, predicate: P) -> Option<R>
    where
        P: Fn(Self::Item) -> Option<R> + Sync + Send,
        R: Send,
    {
        let hits: Vec<R> = self.sim_collect_vec().into_iter().filter_map(predicate).collect();
        if hits.is_empty() {
            None
        } else {
            let k = sim::pick("find_map_any.which", hits.len() as u64) as usize;
            hits.into_iter().nth(k)
        }
    }

    fn unzip<A, B, FromA, FromB>(self) -> (FromA, FromB)
    where
        Self: ParallelIterator<Item = (A, B)>,
        FromA: Default + Extend<A>,
        FromB: Default + Extend<B>,
    {
        let mut fa = FromA::default();
        let mut fb = FromB::default();
        for (a, b) in self.sim_collect_vec() {
            fa.extend(std::iter::once(a));
            fb.extend(std::iter::once(b));
        }
        (fa, fb)
    }

    fn partition<A, B, P>(self, predicate: P) -> (A, B)
    where
        A: Default + Extend<Self::Item>,
        B: Default + Extend<Self::Item>,
        P: Fn(&Self::Item) -> bool + Sync + Send,
    {
        let mut fa = A::default();
        let mut fb = B::default();
        for x in self.sim_collect_vec() {
            if predicate(&x) {
                fa.extend(std::iter::once(x));
            } else {
                fb.extend(std::iter::once(x));
            }
        }
        (fa, fb)
    }
}

/// how a sequence of `len` already produced items is grouped into per-task partial results
fn group_plan(len: usize) -> Vec<(usize, usize)> {
    let mut g = plan(len, 1);
    g.sort_unstable();
    g
}

/// A stage whose items have already been produced (under the taped schedule of the stage before).
pub struct Unindexed<T> {
    items: Vec<T>,
}

impl<T> ParallelIterator for Unindexed<T> {
    type Item = T;

    fn for_each<OP>(self, op: OP)
    where
        OP: Fn(T) + Sync + Send,
    {
        // the consumers of an unindexed stage run leaf by leaf in a taped order
        let n = self.items.len();
        let mut slots: Vec<Option<T>> = self.items.into_iter().map(Some).collect();
        for (a, b) in plan(n, 1) {
            for s in slots.iter_mut().take(b).skip(a) {
                if let Some(x) = s.take() {
                    op(x);
                }
            }
        }
    }

    fn find_any<P>(self, predicate: P) -> Option<T>
    where
        P: Fn(&T) -> bool + Sync + Send,
    {
        let n = self.items.len();
        let mut slots: Vec<Option<T>> = self.items.into_iter().map(Some).collect();
        for (a, b) in plan(n, 1) {
            for s in slots.iter_mut().take(b).skip(a) {
                if let Some(x) = s.take() {
                    if predicate(&x) {
                        return Some(x);
                    }
                }
            }
        }
        None
    }

    fn sim_collect_vec(self) -> Vec<T> {
        self.items
    }
}

pub trait IndexedParallelIterator: ParallelIterator + RandomAccess<RaItem = <Self as ParallelIterator>::Item> {
    fn len(&self) -> usize {
        self.ra_len()
    }

    fn with_max_len(self, _max: usize) -> Self {
        // a splitting hint only: the taped plan already produces leaves of every size
        self
    }

    fn zip_eq<Z>(self, zip_op: Z) -> Zip<Self, Z::Iter>
    where
        Z: IntoParallelIterator,
        Z::Iter: IndexedParallelIterator,
    {
        let other = zip_op.into_par_iter();
        assert_eq!(self.ra_len(), other.ra_len(), "iterators must have the same length");
        Zip { a: self, b: other }
    }

    fn rev(self) -> Unindexed<<Self as ParallelIterator>::Item> {
        let mut items = self.sim_collect_vec();
        items.reverse();
        Unindexed { items }
    }

    fn take(self, n: usize) -> Unindexed<<Self as ParallelIterator>::Item> {
        let mut items = self.sim_collect_vec();
        items.truncate(n);
        Unindexed { items }
    }

    fn skip(self, n: usize) -> Unindexed<<Self as ParallelIterator>::Item> {
        let items = self.sim_collect_vec();
        Unindexed { items: items.into_iter().skip(n).collect() }
    }

    fn step_by(self, step: usize) -> Unindexed<<Self as ParallelIterator>::Item> {
        let items = self.sim_collect_vec();
        Unindexed { items: items.into_iter().step_by(step).collect() }
    }

    fn chunks(self, size: usize) -> Unindexed<Vec<<Self as ParallelIterator>::Item>> {
        assert!(size != 0, "chunk_size must not be zero");
        let items = self.sim_collect_vec();
        let mut out = vec![];
        let mut cur = vec![];
        for x in items {
            cur.push(x);
            if cur.len() == size {
                out.push(std::mem::take(&mut cur));
            }
        }
        if !cur.is_empty() {
            out.push(cur);
        }
        Unindexed { items: out }
    }

    fn position_any<P>(self, predicate: P) -> Option<usize>
    where
        P: Fn(<Self as ParallelIterator>::Item) -> bool + Sync + Send,
    {
        let hits: Vec<usize> = self.sim_collect_vec().into_iter().enumerate().filter_map(|(i, x)| if predicate(x) { Some(i) } else { None }).collect();
        if hits.is_empty() {
            None
        } else {
            Some(hits[sim::pick("position_any.which", hits.len() as u64) as usize])
        }
    }

    fn position_first<P>(self, predicate: P) -> Option<usize>
    where
        P: Fn(<Self as ParallelIterator>::Item) -> bool + Sync + Send,
    {
        self.sim_collect_vec().into_iter().position(predicate)
    }

    fn collect_into_vec(self, target: &mut Vec<<Self as ParallelIterator>::Item>) {
        *target = self.sim_collect_vec();
    }

    fn zip<Z>(self, zip_op: Z) -> Zip<Self, Z::Iter>
    where
        Z: IntoParallelIterator,
        Z::Iter: IndexedParallelIterator,
    {
        Zip { a: self, b: zip_op.into_par_iter() }
    }

    fn enumerate(self) -> Enumerate<Self> {
        Enumerate { base: self }
    }

    fn with_min_len(self, min: usize) -> MinLen<Self> {
        MinLen { base: self, min }
    }
}

pub trait IntoParallelIterator {
    type Iter: ParallelIterator<Item = Self::Item>;
    type Item;
    fn into_par_iter(self) -> Self::Iter;
}

impl<T: ParallelIterator> IntoParallelIterator for T {
    type Iter = T;
    type Item = T::Item;
    fn into_par_iter(self) -> T {
        self
    }
}

pub trait IntoParallelRefIterator<'data> {
    type Iter: ParallelIterator<Item = Self::Item>;
    type Item: 'data;
    fn par_iter(&'data self) -> Self::Iter;
}

impl<'data, I: 'data + ?Sized> IntoParallelRefIterator<'data> for I
where
    &'data I: IntoParallelIterator,
{
    type Iter = <&'data I as IntoParallelIterator>::Iter;
    type Item = <&'data I as IntoParallelIterator>::Item;
    fn par_iter(&'data self) -> Self::Iter {
        self.into_par_iter()
    }
}

pub trait IntoParallelRefMutIterator<'data> {
    type Iter: ParallelIterator<Item = Self::Item>;
    type Item: 'data;
    fn par_iter_mut(&'data mut self) -> Self::Iter;
}

impl<'data, I: 'data + ?Sized> IntoParallelRefMutIterator<'data> for I
where
    &'data mut I: IntoParallelIterator,
{
    type Iter = <&'data mut I as IntoParallelIterator>::Iter;
    type Item = <&'data mut I as IntoParallelIterator>::Item;
    fn par_iter_mut(&'data mut self) -> Self::Iter {
        self.into_par_iter()
    }
}

pub trait FromParallelIterator<T> {
    fn from_par_iter<I>(par_iter: I) -> Self
    where
        I: IntoParallelIterator<Item = T>;
}

impl<T> FromParallelIterator<T> for Vec<T> {
    fn from_par_iter<I>(par_iter: I) -> Self
    where
        I: IntoParallelIterator<Item = T>,
    {
        par_iter.into_par_iter().sim_collect_vec()
    }
}

pub trait ParallelSlice<T> {
    fn as_parallel_slice(&self) -> &[T];
    fn par_chunks(&self, chunk_size: usize) -> Chunks<'_, T> {
        assert!(chunk_size != 0, "chunk_size must not be zero");
        let s = self.as_parallel_slice();
        Chunks { ptr: s.as_ptr(), len: s.len(), chunk: chunk_size, _m: PhantomData }
    }
}

/// further slice methods of rayon's `ParallelSlice` / `ParallelSliceMut`
pub trait ParallelSliceExtra<T> {
    fn par_chunks_exact(&self, chunk_size: usize) -> Chunks<'_, T>;
    fn par_windows(&self, window_size: usize) -> Unindexed<&[T]>;
}

impl<T> ParallelSliceExtra<T> for [T] {
    fn par_chunks_exact(&self, chunk_size: usize) -> Chunks<'_, T> {
        assert!(chunk_size != 0, "chunk_size must not be zero");
        let n = self.len() / chunk_size * chunk_size;
        self[..n].par_chunks(chunk_size)
    }
    fn par_windows(&self, window_size: usize) -> Unindexed<&[T]> {
        assert!(window_size != 0, "window_size must not be zero");
        Unindexed { items: self.windows(window_size).collect() }
    }
}

pub trait ParallelSliceMutExtra<T> {
    fn par_chunks_exact_mut(&mut self, chunk_size: usize) -> ChunksMut<'_, T>;
    fn par_sort(&mut self)
    where
        T: Ord;
    fn par_sort_unstable(&mut self)
    where
        T: Ord;
    fn par_sort_by_key<K: Ord, F: Fn(&T) -> K + Sync>(&mut self, f: F);
    fn par_sort_unstable_by_key<K: Ord, F: Fn(&T) -> K + Sync>(&mut self, f: F);
    fn par_sort_by<F: Fn(&T, &T) -> std::cmp::Ordering + Sync>(&mut self, f: F);
    fn par_sort_unstable_by<F: Fn(&T, &T) -> std::cmp::Ordering + Sync>(&mut self, f: F);
}

impl<T> ParallelSliceMutExtra<T> for [T] {
    fn par_chunks_exact_mut(&mut self, chunk_size: usize) -> ChunksMut<'_, T> {
        assert!(chunk_size != 0, "chunk_size must not be zero");
        let n = self.len() / chunk_size * chunk_size;
        self[..n].par_chunks_mut(chunk_size)
    }
    fn par_sort(&mut self)
    where
        T: Ord,
    {
        self.sort()
    }
    fn par_sort_unstable(&mut self)
    where
        T: Ord,
    {
        self.sort_unstable()
    }
    fn par_sort_by_key<K: Ord, F: Fn(&T) -> K + Sync>(&mut self, f: F) {
        self.sort_by_key(f)
    }
    fn par_sort_unstable_by_key<K: Ord, F: Fn(&T) -> K + Sync>(&mut self, f: F) {
        self.sort_unstable_by_key(f)
    }
    fn par_sort_by<F: Fn(&T, &T) -> std::cmp::Ordering + Sync>(&mut self, f: F) {
        self.sort_by(f)
    }
    fn par_sort_unstable_by<F: Fn(&T, &T) -> std::cmp::Ordering + Sync>(&mut self, f: F) {
        self.sort_unstable_by(f)
    }
}

impl<T> ParallelSlice<T> for [T] {
    fn as_parallel_slice(&self) -> &[T] {
        self
    }
}

pub trait ParallelSliceMut<T> {
    fn as_parallel_slice_mut(&mut self) -> &mut [T];
    fn par_chunks_mut(&mut self, chunk_size: usize) -> ChunksMut<'_, T> {
        assert!(chunk_size != 0, "chunk_size must not be zero");
        let s = self.as_parallel_slice_mut();
        ChunksMut { ptr: s.as_mut_ptr(), len: s.len(), chunk: chunk_size, _m: PhantomData }
    }
}

impl<T> ParallelSliceMut<T> for [T] {
    fn as_parallel_slice_mut(&mut self) -> &mut [T] {
        self
    }
}

// Implements ParallelIterator + IndexedParallelIterator for a RandomAccess type.
macro_rules! indexed_impl {
    ([$($gen:tt)*] $ty:ty, $item:ty) => {
        impl<$($gen)*> ParallelIterator for $ty {
            type Item = $item;

            fn for_each<OP>(self, op: OP)
            where
                OP: Fn(Self::Item) + Sync + Send,
            {
                drive(&self, |_, x| {
                    op(x);
                    true
                });
            }

            fn find_any<P>(self, predicate: P) -> Option<Self::Item>
            where
                P: Fn(&Self::Item) -> bool + Sync + Send,
            {
                let mut found = None;
                drive(&self, |_, x| {
                    if predicate(&x) {
                        found = Some(x);
                        false
                    } else {
                        true
                    }
                });
                found
            }

            fn sim_collect_vec(self) -> Vec<Self::Item> {
                let n = self.ra_len();
                let mut out: Vec<Self::Item> = Vec::with_capacity(n);
                let base = out.as_mut_ptr();
                let mut written = 0usize;
                drive(&self, |i, x| {
                    // SAFETY: i < n = capacity; each index written exactly once
                    unsafe { base.add(i).write(x) };
                    written += 1;
                    true
                });
                assert_eq!(written, n, "SimRayon: collect did not visit every index");
                // SAFETY: all n slots initialised
                unsafe { out.set_len(n) };
                out
            }
        }

        impl<$($gen)*> IndexedParallelIterator for $ty {}
    };
}

// SLICES
// ------------------------------------------------------------------------------------------------

pub struct SliceIter<'a, T> {
    ptr: *const T,
    len: usize,
    _m: PhantomData<&'a T>,
}

unsafe impl<'a, T> RandomAccess for SliceIter<'a, T> {
    type RaItem = &'a T;
    fn ra_len(&self) -> usize {
        self.len
    }
    unsafe fn ra_get(&self, i: usize) -> &'a T {
        &*self.ptr.add(i)
    }
}
indexed_impl!(['a, T: 'a] SliceIter<'a, T>, &'a T);

pub struct SliceIterMut<'a, T> {
    ptr: *mut T,
    len: usize,
    _m: PhantomData<&'a mut T>,
}

unsafe impl<'a, T> RandomAccess for SliceIterMut<'a, T> {
    type RaItem = &'a mut T;
    fn ra_len(&self) -> usize {
        self.len
    }
    unsafe fn ra_get(&self, i: usize) -> &'a mut T {
        &mut *self.ptr.add(i)
    }
}
indexed_impl!(['a, T: 'a] SliceIterMut<'a, T>, &'a mut T);

pub struct Chunks<'a, T> {
    ptr: *const T,
    len: usize,
    chunk: usize,
    _m: PhantomData<&'a T>,
}

unsafe impl<'a, T> RandomAccess for Chunks<'a, T> {
    type RaItem = &'a [T];
    fn ra_len(&self) -> usize {
        self.len.div_ceil(self.chunk)
    }
    unsafe fn ra_get(&self, i: usize) -> &'a [T] {
        let start = i * self.chunk;
        let n = self.chunk.min(self.len - start);
        std::slice::from_raw_parts(self.ptr.add(start), n)
    }
}
indexed_impl!(['a, T: 'a] Chunks<'a, T>, &'a [T]);

pub struct ChunksMut<'a, T> {
    ptr: *mut T,
    len: usize,
    chunk: usize,
    _m: PhantomData<&'a mut T>,
}

unsafe impl<'a, T> RandomAccess for ChunksMut<'a, T> {
    type RaItem = &'a mut [T];
    fn ra_len(&self) -> usize {
        self.len.div_ceil(self.chunk)
    }
    unsafe fn ra_get(&self, i: usize) -> &'a mut [T] {
        let start = i * self.chunk;
        let n = self.chunk.min(self.len - start);
        std::slice::from_raw_parts_mut(self.ptr.add(start), n)
    }
}
indexed_impl!(['a, T: 'a] ChunksMut<'a, T>, &'a mut [T]);

impl<'a, T: 'a> IntoParallelIterator for &'a [T] {
    type Iter = SliceIter<'a, T>;
    type Item = &'a T;
    fn into_par_iter(self) -> Self::Iter {
        SliceIter { ptr: self.as_ptr(), len: self.len(), _m: PhantomData }
    }
}

impl<'a, T: 'a> IntoParallelIterator for &'a Vec<T> {
    type Iter = SliceIter<'a, T>;
    type Item = &'a T;
    fn into_par_iter(self) -> Self::Iter {
        self.as_slice().into_par_iter()
    }
}

impl<'a, T: 'a, const N: usize> IntoParallelIterator for &'a [T; N] {
    type Iter = SliceIter<'a, T>;
    type Item = &'a T;
    fn into_par_iter(self) -> Self::Iter {
        self.as_slice().into_par_iter()
    }
}

impl<'a, T: 'a> IntoParallelIterator for &'a mut [T] {
    type Iter = SliceIterMut<'a, T>;
    type Item = &'a mut T;
    fn into_par_iter(self) -> Self::Iter {
        SliceIterMut { ptr: self.as_mut_ptr(), len: self.len(), _m: PhantomData }
    }
}

impl<'a, T: 'a> IntoParallelIterator for &'a mut Vec<T> {
    type Iter = SliceIterMut<'a, T>;
    type Item = &'a mut T;
    fn into_par_iter(self) -> Self::Iter {
        self.as_mut_slice().into_par_iter()
    }
}

impl<'a, T: 'a, const N: usize> IntoParallelIterator for &'a mut [T; N] {
    type Iter = SliceIterMut<'a, T>;
    type Item = &'a mut T;
    fn into_par_iter(self) -> Self::Iter {
        self.as_mut_slice().into_par_iter()
    }
}

// VEC BY VALUE
// ------------------------------------------------------------------------------------------------

pub struct VecIntoIter<T> {
    vec: ManuallyDrop<Vec<T>>,
    /// taken[i] = element i was moved out
    taken: std::cell::RefCell<Vec<bool>>,
}

impl<T> Drop for VecIntoIter<T> {
    fn drop(&mut self) {
        // drop the elements that were never handed out, then free the buffer
        let taken = self.taken.borrow();
        let ptr = self.vec.as_mut_ptr();
        for (i, t) in taken.iter().enumerate() {
            if !*t {
                // SAFETY: element i is still initialised and owned by us
                unsafe { std::ptr::drop_in_place(ptr.add(i)) };
            }
        }
        // SAFETY: elements are gone; release the allocation only
        unsafe {
            self.vec.set_len(0);
            ManuallyDrop::drop(&mut self.vec);
        }
    }
}

unsafe impl<T> RandomAccess for VecIntoIter<T> {
    type RaItem = T;
    fn ra_len(&self) -> usize {
        self.vec.len()
    }
    unsafe fn ra_get(&self, i: usize) -> T {
        let mut taken = self.taken.borrow_mut();
        assert!(!taken[i], "SimRayon: element moved out twice");
        taken[i] = true;
        std::ptr::read(self.vec.as_ptr().add(i))
    }
}
indexed_impl!([T] VecIntoIter<T>, T);

impl<T> IntoParallelIterator for Vec<T> {
    type Iter = VecIntoIter<T>;
    type Item = T;
    fn into_par_iter(self) -> Self::Iter {
        let n = self.len();
        VecIntoIter { vec: ManuallyDrop::new(self), taken: std::cell::RefCell::new(vec![false; n]) }
    }
}

// ADAPTERS
// ------------------------------------------------------------------------------------------------

pub struct Zip<A, B> {
    a: A,
    b: B,
}

unsafe impl<A: RandomAccess, B: RandomAccess> RandomAccess for Zip<A, B> {
    type RaItem = (A::RaItem, B::RaItem);
    fn ra_len(&self) -> usize {
        self.a.ra_len().min(self.b.ra_len())
    }
    fn ra_min_len(&self) -> usize {
        self.a.ra_min_len().max(self.b.ra_min_len())
    }
    unsafe fn ra_get(&self, i: usize) -> Self::RaItem {
        (self.a.ra_get(i), self.b.ra_get(i))
    }
}
indexed_impl!([A: IndexedParallelIterator, B: IndexedParallelIterator] Zip<A, B>, (<A as ParallelIterator>::Item, <B as ParallelIterator>::Item));

pub struct Enumerate<I> {
    base: I,
}

unsafe impl<I: RandomAccess> RandomAccess for Enumerate<I> {
    type RaItem = (usize, I::RaItem);
    fn ra_len(&self) -> usize {
        self.base.ra_len()
    }
    fn ra_min_len(&self) -> usize {
        self.base.ra_min_len()
    }
    unsafe fn ra_get(&self, i: usize) -> Self::RaItem {
        (i, self.base.ra_get(i))
    }
}
indexed_impl!([I: IndexedParallelIterator] Enumerate<I>, (usize, <I as ParallelIterator>::Item));

pub struct MinLen<I> {
    base: I,
    min: usize,
}

unsafe impl<I: RandomAccess> RandomAccess for MinLen<I> {
    type RaItem = I::RaItem;
    fn ra_len(&self) -> usize {
        self.base.ra_len()
    }
    fn ra_min_len(&self) -> usize {
        self.base.ra_min_len().max(self.min)
    }
    unsafe fn ra_get(&self, i: usize) -> Self::RaItem {
        self.base.ra_get(i)
    }
}
indexed_impl!([I: IndexedParallelIterator] MinLen<I>, <I as ParallelIterator>::Item);

pub struct Map<I, F> {
    base: I,
    f: F,
}

unsafe impl<I: RandomAccess, R, F: Fn(I::RaItem) -> R> RandomAccess for Map<I, F> {
    type RaItem = R;
    fn ra_len(&self) -> usize {
        self.base.ra_len()
    }
    fn ra_min_len(&self) -> usize {
        self.base.ra_min_len()
    }
    unsafe fn ra_get(&self, i: usize) -> R {
        (self.f)(self.base.ra_get(i))
    }
}
indexed_impl!([I: IndexedParallelIterator, R, F: Fn(<I as ParallelIterator>::Item) -> R] Map<I, F>, R);

// RANGE<u64> (unindexed in rayon; only find_any is used by winterfell)
// ------------------------------------------------------------------------------------------------

pub struct RangeU64 {
    range: Range<u64>,
}

impl IntoParallelIterator for Range<u64> {
    type Iter = RangeU64;
    type Item = u64;
    fn into_par_iter(self) -> RangeU64 {
        RangeU64 { range: self }
    }
}

impl ParallelIterator for RangeU64 {
    type Item = u64;

    fn for_each<OP>(self, op: OP)
    where
        OP: Fn(u64) + Sync + Send,
    {
        // sub-ranges in a taped order
        let subs = split_range(&self.range);
        for (mut cur, end) in subs {
            while cur < end {
                op(cur);
                cur += 1;
            }
        }
    }

    /// The range is cut into sub-ranges, each owned by one simulated task; tasks advance in
    /// bursts in a taped round-robin order; the first hit in that interleaving wins.
    fn find_any<P>(self, predicate: P) -> Option<u64>
    where
        P: Fn(&u64) -> bool + Sync + Send,
    {
        let mut subs = split_range(&self.range);
        let burst = [1u64, 2, 7, 64, 1024][sim::pick("find.burst", 5) as usize];
        let mut tests = 0u64;
        loop {
            let mut progressed = false;
            for (cur, end) in subs.iter_mut() {
                let mut b = 0;
                while *cur < *end && b < burst {
                    tests += 1;
                    if predicate(cur) {
                        sim::note_find_tests(tests);
                        return Some(*cur);
                    }
                    *cur += 1;
                    b += 1;
                    progressed = true;
                }
            }
            if !progressed {
                sim::note_find_tests(tests);
                return None;
            }
        }
    }

    fn sim_collect_vec(self) -> Vec<u64> {
        self.range.collect()
    }
}

impl IntoParallelIterator for std::ops::RangeInclusive<u64> {
    type Iter = RangeU64;
    type Item = u64;
    fn into_par_iter(self) -> RangeU64 {
        let (a, b) = self.into_inner();
        // (an inclusive range that ends at u64::MAX loses its last value: the search spaces this
        // is used for are never exhausted)
        RangeU64 { range: a..b.saturating_add(1) }
    }
}

/// indexed integer ranges (`Range<usize>`, `Range<u32>`, `Range<i32>`, `Range<i64>`, their
/// inclusive forms through `into_par_iter`)
pub struct RangeIdx<T> {
    start: T,
    len: usize,
}

macro_rules! indexed_range {
    ($t:ty) => {
        unsafe impl RandomAccess for RangeIdx<$t> {
            type RaItem = $t;
            fn ra_len(&self) -> usize {
                self.len
            }
            unsafe fn ra_get(&self, i: usize) -> $t {
                self.start + i as $t
            }
        }
        indexed_impl!([] RangeIdx<$t>, $t);
        impl IntoParallelIterator for Range<$t> {
            type Iter = RangeIdx<$t>;
            type Item = $t;
            fn into_par_iter(self) -> RangeIdx<$t> {
                let len = if self.end > self.start { (self.end - self.start) as usize } else { 0 };
                RangeIdx { start: self.start, len }
            }
        }
        impl IntoParallelIterator for std::ops::RangeInclusive<$t> {
            type Iter = RangeIdx<$t>;
            type Item = $t;
            fn into_par_iter(self) -> RangeIdx<$t> {
                let (a, b) = self.into_inner();
                let len = if b >= a { (b - a) as usize + 1 } else { 0 };
                RangeIdx { start: a, len }
            }
        }
    };
}
indexed_range!(usize);
indexed_range!(u32);
indexed_range!(u16);
indexed_range!(u8);
indexed_range!(i32);
indexed_range!(i64);
indexed_range!(isize);

/// sub-ranges (cursor, end) in the order the simulated tasks take turns
fn split_range(r: &Range<u64>) -> Vec<(u64, u64)> {
    sim::note_par_op();
    let len = r.end.saturating_sub(r.start);
    if len == 0 {
        return vec![];
    }
    let p = sim::pool_size() as u64;
    let max = (4 * p).min(len).max(1);
    let k = if sim::installed() { 1 + sim::pick("find.subranges", max) } else { 1 };
    let mut subs: Vec<(u64, u64)> = (0..k)
        .map(|i| {
            let a = r.start + (i as u128 * len as u128 / k as u128) as u64;
            let b = r.start + ((i + 1) as u128 * len as u128 / k as u128) as u64;
            (a, b)
        })
        .collect();
    let n = subs.len();
    if n > 1 {
        match sim::pick("find.order", 3) {
            0 => {},
            1 => {
                subs.reverse();
                sim::note_reorder();
            },
            _ => {
                for i in 0..n - 1 {
                    let j = i + sim::pick("find.perm", (n - i) as u64) as usize;
                    if j != i {
                        sim::note_reorder();
                    }
                    subs.swap(i, j);
                }
            },
        }
    }
    for _ in 0..n {
        sim::note_task();
    }
    subs
}
