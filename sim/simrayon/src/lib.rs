//! SimRayon — a deterministic, tape-driven stand-in for the subset of rayon 1.x that
//! winterfell uses. Package name `rayon`, placed in the graph with `[patch.crates-io]`.
//!
//! Everything runs on the calling OS thread; *the simulator decides who runs*:
//!  * `current_num_threads()` returns the simulated pool size chosen for the run;
//!  * an indexed parallel iterator is cut into leaf ranges (number and position of the cuts
//!    from the tape, respecting `with_min_len`) and the leaves run in a taped order; inside a
//!    leaf items run in index order, as rayon's sequential fold does;
//!  * `scope`: every `spawn` is, by a taped coin, run to completion at the spawn point or
//!    queued; queued tasks run after the scope body in a taped order (nested spawns recurse);
//!  * `find_any` over a `Range<u64>`: the range is cut into sub-ranges scanned round-robin in a
//!    taped interleaving; the first hit in that interleaving is returned.
//! Every such execution is one that real rayon may produce, so the shim cannot report a
//! behaviour that rayon forbids. Granularity is the task: a task body is not pre-empted.

#![allow(clippy::len_without_is_empty)]

pub mod iter;
pub mod sim;

pub mod prelude {
    pub use crate::iter::{
        FromParallelIterator, IndexedParallelIterator, IntoParallelIterator, IntoParallelRefIterator,
        IntoParallelRefMutIterator, ParallelIterator, ParallelSlice, ParallelSliceMut,
    };
}

pub mod vec {
    pub use crate::iter::VecIntoIter as IntoIter;
}

pub mod slice {
    pub use crate::iter::{Chunks, ChunksMut, SliceIter as Iter, SliceIterMut as IterMut};
}

pub mod range {
    pub use crate::iter::RangeU64 as Iter;
}

use std::cell::RefCell;
use std::marker::PhantomData;

/// The simulated pool size (1 when no simulation is installed on this thread).
pub fn current_num_threads() -> usize {
    sim::pool_size()
}

type Task<'scope> = Box<dyn FnOnce(&Scope<'scope>) + Send + 'scope>;

pub struct Scope<'scope> {
    queue: RefCell<Vec<Task<'scope>>>,
    marker: PhantomData<Box<dyn FnOnce(&Scope<'scope>) + Send + Sync + 'scope>>,
}

impl<'scope> Scope<'scope> {
    pub fn spawn<BODY>(&self, body: BODY)
    where
        BODY: FnOnce(&Scope<'scope>) + Send + 'scope,
    {
        sim::note_task();
        // taped coin: run now (stolen at once and finished before the spawner proceeds) or queue
        if sim::pick("scope.spawn.defer?", 2) == 0 {
            body(self);
        } else {
            sim::note_reorder();
            self.queue.borrow_mut().push(Box::new(body));
        }
    }

    fn drain(&self) {
        loop {
            let task = {
                let mut q = self.queue.borrow_mut();
                if q.is_empty() {
                    break;
                }
                let n = q.len();
                // 0 = the most recently queued task (LIFO, what the spawning worker itself pops)
                let k = sim::pick("scope.next", n as u64) as usize;
                if k != n - 1 {
                    sim::note_reorder();
                }
                q.remove(n - 1 - k)
            };
            task(self);
        }
    }
}

pub fn scope<'scope, OP, R>(op: OP) -> R
where
    OP: FnOnce(&Scope<'scope>) -> R + Send,
    R: Send,
{
    let s = Scope { queue: RefCell::new(Vec::new()), marker: PhantomData };
    let r = op(&s);
    s.drain();
    r
}

pub fn join<A, B, RA, RB>(a: A, b: B) -> (RA, RB)
where
    A: FnOnce() -> RA + Send,
    B: FnOnce() -> RB + Send,
    RA: Send,
    RB: Send,
{
    if sim::pick("join.order", 2) == 0 {
        let ra = a();
        let rb = b();
        (ra, rb)
    } else {
        sim::note_reorder();
        let rb = b();
        let ra = a();
        (ra, rb)
    }
}
