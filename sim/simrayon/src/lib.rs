//! SimRayon — a deterministic, tape-driven stand-in for the subset of rayon 1.x that
//! winterfell uses. Package name `rayon`, placed in the graph with `[patch.crates-io]`.
//!
//! Everything runs on the calling OS thread; *the simulator decides who runs*:
//!  * `current_num_threads()` returns the simulated pool size chosen for the run;
//!  * an indexed parallel iterator is cut into leaf ranges (number and position of the cuts
//!    from the tape, respecting `with_min_len`) and the leaves run in a taped order; inside a
//!    leaf items run in index order, as rayon's sequential fold does;
//!  * `scope`: every `spawn` is, by a taped coin, run to completion at the spawn point or
//!    queued; queued tasks run after the scope body in a taped order (nested spawns recurse);
//!  * `find_any` over a `Range<u64>`: the range is cut into sub-ranges scanned round-robin in a
//!    taped interleaving; the first hit in that interleaving is returned.
//! Every such execution is one that real rayon may produce, so the shim cannot report a
//! behaviour that rayon forbids. Granularity is the task: a task body is not pre-empted.

#![allow(clippy::len_without_is_empty)]

pub mod iter;
pub mod sim;

pub mod prelude {
    pub use crate::iter::{
        FromParallelIterator, IndexedParallelIterator, IntoParallelIterator, IntoParallelRefIterator,
        IntoParallelRefMutIterator, ParallelIterator, ParallelSlice, ParallelSliceExtra, ParallelSliceMut,
        ParallelSliceMutExtra,
    };
}

pub mod vec {
    pub use crate::iter::VecIntoIter as IntoIter;
}

pub mod slice {
    pub use crate::iter::{Chunks, ChunksMut, SliceIter as Iter, SliceIterMut as IterMut};
}

pub mod range {
    pub use crate::iter::RangeU64 as Iter;
}

use std::cell::RefCell;
use std::marker::PhantomData;

/// Index of the calling worker in the simulated pool: all simulated tasks run on the one OS
/// thread of the run, which reports itself as worker 0.
pub fn current_thread_index() -> Option<usize> {
    Some(0)
}

/// Fire-and-forget task: run at once (there is no later point at which the shim could run it).
pub fn spawn<F>(func: F)
where
    F: FnOnce() + Send + 'static,
{
    sim::note_task();
    func()
}

/// The simulated pool size (1 when no simulation is installed on this thread).
pub fn current_num_threads() -> usize {
    sim::pool_size()
}

type Task<'scope> = Box<dyn FnOnce(&Scope<'scope>) + Send + 'scope>;

pub struct Scope<'scope> {
    queue: RefCell<Vec<Task<'scope>>>,
    marker: PhantomData<Box<dyn FnOnce(&Scope<'scope>) + Send + Sync + 'scope>>,
}

impl<'scope> Scope<'scope> {
    pub fn spawn<BODY>(&self, body: BODY)
    where
        BODY: FnOnce(&Scope<'scope>) + Send + 'scope,
    {
        sim::note_task();
        // taped coin: run now (stolen at once and finished before the spawner proceeds) or queue
        if sim::pick("scope.spawn.defer?", 2) == 0 {
            body(self);
        } else {
            sim::note_reorder();
            self.queue.borrow_mut().push(Box::new(body));
        }
    }

    fn drain(&self) {
        loop {
            let task = {
                let mut q = self.queue.borrow_mut();
                if q.is_empty() {
                    break;
                }
                let n = q.len();
                // 0 = the most recently queued task (LIFO, what the spawning worker itself pops)
                let k = sim::pick("scope.next", n as u64) as usize;
                if k != n - 1 {
                    sim::note_reorder();
                }
                q.remove(n - 1 - k)
            };
            task(self);
        }
    }
}

pub fn scope<'scope, OP, R>(op: OP) -> R
where
    OP: FnOnce(&Scope<'scope>) -> R + Send,
    R: Send,
{
    let s = Scope { queue: RefCell::new(Vec::new()), marker: PhantomData };
    let r = op(&s);
    s.drain();
    r
}

pub fn join<A, B, RA, RB>(a: A, b: B) -> (RA, RB)
where
    A: FnOnce() -> RA + Send,
    B: FnOnce() -> RB + Send,
    RA: Send,
    RB: Send,
{
    if sim::pick("join.order", 2) == 0 {
        let ra = a();
        let rb = b();
        (ra, rb)
    } else {
        sim::note_reorder();
        let rb = b();
        let ra = a();
        (ra, rb)
    }
}

#[cfg(test)]
mod tests {
    use crate::prelude::*;

    /// the widened API surface under a non-trivial schedule gives the sequential results
    #[test]
    fn surface() {
        let mut state = 12345u64;
        let mut picker = move |_site: &'static str, n: u64| {
            state = state.wrapping_mul(6364136223846793005).wrapping_add(1442695040888963407);
            (state >> 33) % n
        };
        crate::sim::with_schedule(7, &mut picker, || {
            let v: Vec<u64> = (0..1000u64).collect();
            assert_eq!(v.par_iter().map(|x| x * 2).sum::<u64>(), 999 * 1000);
            assert_eq!(v.par_iter().filter(|x| **x % 3 == 0).count(), 334);
            assert_eq!((0..100usize).into_par_iter().map(|i| i * i).collect::<Vec<_>>(), (0..100usize).map(|i| i * i).collect::<Vec<_>>());
            assert_eq!((1..=10u32).into_par_iter().reduce(|| 0, |a, b| a + b), 55);
            assert_eq!((5..=5u64).into_par_iter().find_any(|x| *x == 5), Some(5));
            assert_eq!((1..=1u64 << 12).into_par_iter().find_any(|x| *x == 4096), Some(4096));
            assert!(v.par_iter().any(|x| *x == 999));
            assert!(v.par_iter().all(|x| *x < 1000));
            assert_eq!(v.par_iter().max(), Some(&999));
            assert_eq!(v.par_chunks_exact(7).map(|c| c.len()).collect::<Vec<_>>().len(), 142);
            let mut w = vec![3, 1, 2];
            w.par_sort_unstable();
            assert_eq!(w, vec![1, 2, 3]);
            let parts: Vec<u64> = v.par_iter().fold(|| 0u64, |a, b| a + *b).collect();
            assert_eq!(parts.iter().sum::<u64>(), 499500);
            assert_eq!(v.par_iter().position_first(|x| *x == 17), Some(17));
            let (a, b): (Vec<u64>, Vec<u64>) = v.par_iter().map(|x| (*x, x + 1)).unzip();
            assert_eq!(a.len(), b.len());
            assert_eq!(v.par_iter().copied().flat_map_iter(|x| [x, x]).count(), 2000);
            assert_eq!(v.par_iter().enumerate().with_max_len(3).map(|(i, x)| i as u64 + *x).collect::<Vec<_>>()[10], 20);
        });
    }
}
