//! placeholder (filled in by the C14 work)
