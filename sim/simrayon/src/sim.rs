//! Connection between the shim and the simulator: a thread-local pool size, a pointer to the
//! run's choice function, and counters the harness reads back.

use std::cell::{Cell, RefCell};

pub type PickFn<'a> = dyn FnMut(&'static str, u64) -> u64 + 'a;

#[derive(Clone, Copy, Debug, Default)]
pub struct Stats {
    /// parallel operations started (for_each / collect / find_any / scope spawn)
    pub par_ops: u64,
    /// leaves or tasks executed
    pub tasks: u64,
    /// tasks that ran in a position different from the in-order schedule
    pub reorders: u64,
    /// values tested inside find_any
    pub find_any_tests: u64,
}

thread_local! {
    static POOL: Cell<usize> = const { Cell::new(1) };
    static PICK: RefCell<Option<*mut PickFn<'static>>> = const { RefCell::new(None) };
    static STATS: Cell<Stats> = const { Cell::new(Stats { par_ops: 0, tasks: 0, reorders: 0, find_any_tests: 0 }) };
}

pub fn pool_size() -> usize {
    POOL.with(|p| p.get())
}

pub fn installed() -> bool {
    PICK.with(|p| p.borrow().is_some())
}

/// A taped choice in [0, n); 0 (the in-order / simplest choice) when no simulation is installed.
pub fn pick(site: &'static str, n: u64) -> u64 {
    if n <= 1 {
        return 0;
    }
    let ptr = PICK.with(|p| *p.borrow());
    match ptr {
        // SAFETY: the pointer is valid for the dynamic extent of `with_schedule`, which is the
        // only place that sets it, on this thread only; the closure is not re-entered because
        // `pick` never calls back into code that calls `pick`.
        Some(f) => unsafe { (*f)(site, n) % n },
        None => 0,
    }
}

pub fn stats() -> Stats {
    STATS.with(|s| s.get())
}

pub fn note_par_op() {
    STATS.with(|s| {
        let mut v = s.get();
        v.par_ops += 1;
        s.set(v)
    });
}
pub fn note_task() {
    STATS.with(|s| {
        let mut v = s.get();
        v.tasks += 1;
        s.set(v)
    });
}
pub fn note_reorder() {
    STATS.with(|s| {
        let mut v = s.get();
        v.reorders += 1;
        s.set(v)
    });
}
pub fn note_find_tests(n: u64) {
    STATS.with(|s| {
        let mut v = s.get();
        v.find_any_tests += n;
        s.set(v)
    });
}

struct Restore {
    pool: usize,
    pick: Option<*mut PickFn<'static>>,
}

impl Drop for Restore {
    fn drop(&mut self) {
        POOL.with(|p| p.set(self.pool));
        PICK.with(|p| *p.borrow_mut() = self.pick);
    }
}

/// Run `f` with a simulated pool of `pool` workers whose every scheduling decision is taken by
/// `picker`. Counters are reset at entry; read them with `stats()` afterwards.
pub fn with_schedule<R>(pool: usize, picker: &mut PickFn<'_>, f: impl FnOnce() -> R) -> R {
    let _restore = Restore { pool: pool_size(), pick: PICK.with(|p| *p.borrow()) };
    POOL.with(|p| p.set(pool.max(1)));
    // SAFETY: lifetime erasure only; the pointer is removed by `Restore` before `picker`'s
    // borrow ends (also on unwind).
    let raw: *mut PickFn<'static> = unsafe { std::mem::transmute(picker as *mut PickFn<'_>) };
    PICK.with(|p| *p.borrow_mut() = Some(raw));
    STATS.with(|s| s.set(Stats::default()));
    f()
}
