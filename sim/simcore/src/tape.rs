//! The choice tape: every decision a run makes goes through `Chooser`.
//!
//! Record mode draws from the PRNG; replay mode returns taped values (`v % n`, `0` past the
//! end). Either way the *effective* tape is re-recorded, so a shrunk tape is normalised by
//! simply running it once. Generators are written so that 0 is the simplest choice.

use crate::rng::Xoshiro;

#[derive(Clone, Debug, PartialEq, Eq)]
pub struct Entry {
    pub site: &'static str,
    pub n: u64,
    pub v: u64,
}

enum Source {
    Rng(Xoshiro),
    Replay { vals: Vec<u64>, idx: usize },
}

pub struct Chooser {
    src: Source,
    pub tape: Vec<Entry>,
    /// number of choices requested past the end of a replayed tape
    pub overrun: usize,
}

pub const TAPE_LIMIT: usize = 1 << 22;

impl Chooser {
    pub fn record(rng: Xoshiro) -> Self {
        Chooser { src: Source::Rng(rng), tape: Vec::new(), overrun: 0 }
    }

    pub fn replay(vals: Vec<u64>) -> Self {
        Chooser { src: Source::Replay { vals, idx: 0 }, tape: Vec::new(), overrun: 0 }
    }

    /// the values this chooser replays (None in record mode)
    pub fn replay_values(&self) -> Option<&[u64]> {
        match &self.src {
            Source::Replay { vals, .. } => Some(vals),
            Source::Rng(_) => None,
        }
    }

    pub fn is_replay(&self) -> bool {
        matches!(self.src, Source::Replay { .. })
    }

    pub fn values(&self) -> Vec<u64> {
        self.tape.iter().map(|e| e.v).collect()
    }

    fn push(&mut self, site: &'static str, n: u64, v: u64) {
        if self.tape.len() >= TAPE_LIMIT {
            panic!("simcore: choice tape overflow at site {site}");
        }
        self.tape.push(Entry { site, n, v });
    }

    /// Semantic choice: `draw` maps a PRNG to a value in [0,n) (record mode, lets the caller
    /// bias the distribution); replay mode uses the taped value.
    pub fn pick_with(&mut self, site: &'static str, n: u64, draw: impl FnOnce(&mut Xoshiro) -> u64) -> u64 {
        if n <= 1 {
            return 0;
        }
        let v = match &mut self.src {
            Source::Rng(r) => draw(r) % n,
            Source::Replay { vals, idx } => {
                let v = match vals.get(*idx) {
                    Some(v) => *v % n,
                    None => {
                        self.overrun += 1;
                        0
                    },
                };
                *idx += 1;
                v
            },
        };
        self.push(site, n, v);
        v
    }

    /// uniform in [0, n)
    pub fn pick(&mut self, site: &'static str, n: u64) -> u64 {
        self.pick_with(site, n, |r| r.below(n))
    }

    pub fn index(&mut self, site: &'static str, n: usize) -> usize {
        self.pick(site, n as u64) as usize
    }

    /// uniform in [lo, hi] (inclusive)
    pub fn range(&mut self, site: &'static str, lo: u64, hi: u64) -> u64 {
        debug_assert!(lo <= hi);
        lo + self.pick(site, hi - lo + 1)
    }

    /// true with probability num/den; taped as 0/1 (0 = false = "nothing special happens")
    pub fn chance(&mut self, site: &'static str, num: u64, den: u64) -> bool {
        self.pick_with(site, 2, |r| (r.below(den) < num) as u64) == 1
    }

    /// index into `weights` with probability proportional to the weight; index 0 is "simplest"
    pub fn weighted(&mut self, site: &'static str, weights: &[u32]) -> usize {
        let total: u64 = weights.iter().map(|w| *w as u64).sum();
        self.pick_with(site, weights.len() as u64, |r| {
            let mut x = r.below(total.max(1));
            for (i, w) in weights.iter().enumerate() {
                if x < *w as u64 {
                    return i as u64;
                }
                x -= *w as u64;
            }
            0
        }) as usize
    }

    /// value in [lo, hi]: half the time one of `favourites` (those inside the range), else
    /// uniform. Taped as `value - lo`.
    pub fn biased(&mut self, site: &'static str, lo: u64, hi: u64, favourites: &[u64]) -> u64 {
        debug_assert!(lo <= hi);
        let n = hi - lo + 1;
        lo + self.pick_with(site, n, |r| {
            let favs: Vec<u64> = favourites.iter().copied().filter(|f| *f >= lo && *f <= hi).collect();
            if !favs.is_empty() && r.below(2) == 0 {
                favs[r.below(favs.len() as u64) as usize] - lo
            } else {
                r.below(n)
            }
        })
    }

    /// one element of a slice (index 0 is simplest)
    pub fn choose<'a, T>(&mut self, site: &'static str, items: &'a [T]) -> &'a T {
        &items[self.index(site, items.len())]
    }

    /// a full 64-bit value (taped as is)
    pub fn u64(&mut self, site: &'static str) -> u64 {
        self.pick_with(site, u64::MAX, |r| r.next())
    }

    /// a permutation of 0..n chosen by Fisher-Yates from the tape (all-zero tape = identity)
    pub fn permutation(&mut self, site: &'static str, n: usize) -> Vec<usize> {
        let mut p: Vec<usize> = (0..n).collect();
        for i in 0..n.saturating_sub(1) {
            let j = i + self.index(site, n - i);
            p.swap(i, j);
        }
        p
    }
}
