//! Allocation meter: a GlobalAlloc wrapper with thread-local counters. While a guarded call is
//! active on a thread it records the largest single request and the running total, and refuses
//! (returns null => the process aborts) above a hard cap so that a terabyte request cannot take
//! the sandbox down. Aborts are observed by the isolation layer (iso.rs).

use std::alloc::{GlobalAlloc, Layout, System};
use std::cell::Cell;

pub struct Meter;

thread_local! {
    static ACTIVE: Cell<bool> = const { Cell::new(false) };
    static MAX_REQ: Cell<usize> = const { Cell::new(0) };
    static TOTAL: Cell<usize> = const { Cell::new(0) };
}

/// requests above this are refused while metering is active
pub const HARD_CAP: usize = 1 << 30;

unsafe impl GlobalAlloc for Meter {
    unsafe fn alloc(&self, layout: Layout) -> *mut u8 {
        if note(layout.size()) {
            return std::ptr::null_mut();
        }
        System.alloc(layout)
    }
    unsafe fn dealloc(&self, ptr: *mut u8, layout: Layout) {
        System.dealloc(ptr, layout)
    }
    unsafe fn alloc_zeroed(&self, layout: Layout) -> *mut u8 {
        if note(layout.size()) {
            return std::ptr::null_mut();
        }
        System.alloc_zeroed(layout)
    }
    unsafe fn realloc(&self, ptr: *mut u8, layout: Layout, new_size: usize) -> *mut u8 {
        if note(new_size) {
            return std::ptr::null_mut();
        }
        System.realloc(ptr, layout, new_size)
    }
}

/// returns true when the request must be refused
#[inline]
fn note(size: usize) -> bool {
    // try_with: the thread-local may already be destroyed during thread teardown
    ACTIVE
        .try_with(|a| {
            if !a.get() {
                return false;
            }
            let _ = MAX_REQ.try_with(|m| {
                if size > m.get() {
                    m.set(size)
                }
            });
            let _ = TOTAL.try_with(|t| t.set(t.get().saturating_add(size)));
            size > HARD_CAP
        })
        .unwrap_or(false)
}

#[derive(Clone, Copy, Debug, Default)]
pub struct Usage {
    pub max_request: usize,
    pub total: usize,
}

/// Run `f` with the meter active on this thread; returns its result and what it requested.
pub fn metered<R>(f: impl FnOnce() -> R) -> (R, Usage) {
    struct Off(bool);
    impl Drop for Off {
        fn drop(&mut self) {
            ACTIVE.with(|a| a.set(self.0));
        }
    }
    let prev = ACTIVE.with(|a| a.replace(true));
    let (pm, pt) = (MAX_REQ.with(|m| m.replace(0)), TOTAL.with(|t| t.replace(0)));
    let off = Off(prev);
    let r = f();
    drop(off);
    let u = Usage { max_request: MAX_REQ.with(|m| m.get()), total: TOTAL.with(|t| t.get()) };
    MAX_REQ.with(|m| m.set(pm.max(u.max_request)));
    TOTAL.with(|t| t.set(pt.saturating_add(u.total)));
    (r, u)
}
