//! SplitMix64 -> xoshiro256** ; every random decision of every run comes from here.

#[derive(Clone, Debug)]
pub struct SplitMix64(pub u64);

impl SplitMix64 {
    pub fn next(&mut self) -> u64 {
        self.0 = self.0.wrapping_add(0x9E37_79B9_7F4A_7C15);
        let mut z = self.0;
        z = (z ^ (z >> 30)).wrapping_mul(0xBF58_476D_1CE4_E5B9);
        z = (z ^ (z >> 27)).wrapping_mul(0x94D0_49BB_1331_11EB);
        z ^ (z >> 31)
    }
}

#[derive(Clone, Debug)]
pub struct Xoshiro {
    s: [u64; 4],
}

impl Xoshiro {
    pub fn from_u64(seed: u64) -> Self {
        let mut sm = SplitMix64(seed);
        let s = [sm.next(), sm.next(), sm.next(), sm.next()];
        Xoshiro { s }
    }

    pub fn next(&mut self) -> u64 {
        let result = self.s[1].wrapping_mul(5).rotate_left(7).wrapping_mul(9);
        let t = self.s[1] << 17;
        self.s[2] ^= self.s[0];
        self.s[3] ^= self.s[1];
        self.s[1] ^= self.s[2];
        self.s[0] ^= self.s[3];
        self.s[2] ^= t;
        self.s[3] = self.s[3].rotate_left(45);
        result
    }

    /// uniform in [0, n); n == 0 is treated as 1
    pub fn below(&mut self, n: u64) -> u64 {
        if n <= 1 {
            return 0;
        }
        // rejection sampling: unbiased
        let zone = u64::MAX - (u64::MAX % n);
        loop {
            let v = self.next();
            if v < zone {
                return v % n;
            }
        }
    }
}

pub fn fnv1a(bytes: &[u8]) -> u64 {
    let mut h = 0xcbf2_9ce4_8422_2325u64;
    for b in bytes {
        h ^= *b as u64;
        h = h.wrapping_mul(0x0000_0100_0000_01B3);
    }
    h
}

/// The stream of run `run` of arm `arm` under master seed `seed`.
pub fn stream(seed: u64, arm: &str, run: u64) -> Xoshiro {
    let mut sm = SplitMix64(seed ^ fnv1a(arm.as_bytes()).rotate_left(17));
    let a = sm.next();
    let mut sm2 = SplitMix64(a ^ run.wrapping_mul(0xD6E8_FEB8_6659_FD93));
    Xoshiro::from_u64(sm2.next())
}
