//! simcore: one seed, one choice tape, one replay file.
pub mod check;
pub mod ctx;
pub mod iso;
pub mod keyed;
pub mod meter;
pub mod rng;
pub mod shrink;
pub mod tape;

pub use check::{main_for, Arm, CheckSpec, FnArm, RunInfo, Tier};
pub use ctx::{guard, Ctx, PanicInfo, Violation};
pub use keyed::Keyed;
pub use tape::Chooser;
