//! A per-key lazily initialised cache whose values live for the rest of the process.
//! Caches in arms are keyed by (tier, seed): a known-finding replay (recorded under its own seed
//! and tier) and the batch (VERIF_SEED, the tier asked for) may share one arm object.
use std::collections::BTreeMap;
use std::sync::Mutex;

pub struct Keyed<K: Ord + Clone, V: 'static> {
    map: Mutex<BTreeMap<K, &'static V>>,
}

impl<K: Ord + Clone, V: 'static> Keyed<K, V> {
    pub const fn new() -> Self {
        Keyed { map: Mutex::new(BTreeMap::new()) }
    }
    pub fn get_or_init(&self, key: K, f: impl FnOnce() -> V) -> &'static V {
        let mut m = self.map.lock().unwrap_or_else(|e| e.into_inner());
        if let Some(v) = m.get(&key) {
            return v;
        }
        let v: &'static V = Box::leak(Box::new(f()));
        m.insert(key, v);
        v
    }
}

impl<K: Ord + Clone, V: 'static> Default for Keyed<K, V> {
    fn default() -> Self {
        Self::new()
    }
}
