//! Delta debugging over a choice tape. Operations, faults and schedule choices all live on the
//! same tape, so one mechanism drops operations, drops faults, shrinks arguments and
//! simplifies schedules. `test` returns true when the same violation class is still
//! reported.

use std::time::{Duration, Instant};

pub struct ShrinkStats {
    pub tests: u64,
    pub from_len: usize,
    pub to_len: usize,
}

pub fn shrink(
    start: Vec<u64>,
    mut test: impl FnMut(&[u64]) -> bool,
    max_tests: u64,
    max_time: Duration,
) -> (Vec<u64>, ShrinkStats) {
    let t0 = Instant::now();
    let mut tests = 0u64;
    let from_len = start.len();
    let mut cur = start;

    let mut try_candidate = |cand: &[u64], tests: &mut u64| -> bool {
        if *tests >= max_tests || t0.elapsed() > max_time {
            return false;
        }
        *tests += 1;
        test(cand)
    };

    fn trim(mut v: Vec<u64>) -> Vec<u64> {
        while v.last() == Some(&0) {
            v.pop();
        }
        v
    }
    cur = trim(cur);

    loop {
        let before = cur.clone();

        // 1. truncate (values past the end read as 0): binary search the shortest prefix
        let mut lo = 0usize;
        let mut hi = cur.len();
        while lo < hi {
            let mid = (lo + hi) / 2;
            if try_candidate(&cur[..mid], &mut tests) {
                cur = trim(cur[..mid].to_vec());
                hi = cur.len();
                if lo > hi {
                    lo = hi;
                }
            } else {
                lo = mid + 1;
            }
            if tests >= max_tests {
                break;
            }
        }

        // 2. delete blocks of decreasing size
        let mut size = (cur.len() / 2).max(1);
        while size >= 1 && !cur.is_empty() {
            let mut i = 0;
            while i < cur.len() {
                let end = (i + size).min(cur.len());
                let mut cand = Vec::with_capacity(cur.len() - (end - i));
                cand.extend_from_slice(&cur[..i]);
                cand.extend_from_slice(&cur[end..]);
                if try_candidate(&cand, &mut tests) {
                    cur = trim(cand);
                    // stay at i: the next block moved here
                } else {
                    i += size;
                }
                if tests >= max_tests || t0.elapsed() > max_time {
                    break;
                }
            }
            if size == 1 {
                break;
            }
            size /= 2;
        }

        // 3. lower single values toward 0
        let mut i = 0;
        while i < cur.len() {
            if cur[i] != 0 {
                let orig = cur[i];
                let mut cands = vec![0u64];
                if orig > 1 {
                    cands.push(1);
                }
                if orig > 3 {
                    cands.push(orig / 2);
                }
                if orig > 2 {
                    cands.push(orig - 1);
                }
                for c in cands {
                    if c >= cur[i] {
                        continue;
                    }
                    let mut cand = cur.clone();
                    cand[i] = c;
                    if try_candidate(&cand, &mut tests) {
                        cur = cand;
                        if c == 0 {
                            break;
                        }
                    }
                }
            }
            i += 1;
            if tests >= max_tests || t0.elapsed() > max_time {
                break;
            }
        }
        cur = trim(cur);

        if cur == before || tests >= max_tests || t0.elapsed() > max_time {
            break;
        }
    }
    let to_len = cur.len();
    (cur, ShrinkStats { tests, from_len, to_len })
}
