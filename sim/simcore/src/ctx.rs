//! Per-run context: event log (digest + optional text), violations, fault / probe counters,
//! and panic capture.

use std::cell::RefCell;
use std::collections::BTreeMap;
use std::panic::{self, AssertUnwindSafe};
use std::sync::Once;

#[derive(Clone, Debug, PartialEq, Eq)]
pub struct Violation {
    /// stable signature: what failed and how, independent of seed / run / line numbers
    pub class: String,
    pub detail: String,
}

pub struct Ctx {
    pub keep_log: bool,
    pub log: Vec<String>,
    pub digest: u64,
    pub events: u64,
    pub violations: Vec<Violation>,
    pub faults: BTreeMap<&'static str, u64>,
    pub probes: BTreeMap<&'static str, u64>,
    pub nontrivial: bool,
    /// set by a scenario when the run was abandoned for a reason that is not a violation
    pub skipped: Option<&'static str>,
}

impl Ctx {
    pub fn new(keep_log: bool) -> Self {
        Ctx {
            keep_log,
            log: Vec::new(),
            digest: 0xcbf2_9ce4_8422_2325,
            events: 0,
            violations: Vec::new(),
            faults: BTreeMap::new(),
            probes: BTreeMap::new(),
            nontrivial: false,
            skipped: None,
        }
    }

    #[inline]
    pub fn mix(&mut self, v: u64) {
        self.digest ^= v;
        self.digest = self.digest.wrapping_mul(0x0000_0100_0000_01B3);
        self.digest ^= self.digest >> 29;
    }

    pub fn mix_bytes(&mut self, b: &[u8]) {
        self.mix(crate::rng::fnv1a(b));
    }

    /// One event of the simulated history: stamped with the global sequence number (the only
    /// notion of simulated time), folded into the digest, kept as text when asked to.
    #[inline]
    pub fn event(&mut self, kind: &'static str, a: u64, b: u64) {
        self.events += 1;
        self.mix(crate::rng::fnv1a(kind.as_bytes()));
        self.mix(a);
        self.mix(b);
        if self.keep_log && self.log.len() < 400 {
            self.log.push(format!("#{} {} {} {}", self.events, kind, a, b));
        }
    }

    /// Event with free text (text computed only when the log is kept; `h` goes in the digest).
    #[inline]
    pub fn event_with(&mut self, kind: &'static str, h: u64, text: impl FnOnce() -> String) {
        self.events += 1;
        self.mix(crate::rng::fnv1a(kind.as_bytes()));
        self.mix(h);
        if self.keep_log && self.log.len() < 400 {
            let t = text();
            self.log.push(format!("#{} {} {}", self.events, kind, t));
        }
    }

    pub fn note(&mut self, text: impl FnOnce() -> String) {
        if self.keep_log && self.log.len() < 400 {
            let t = text();
            self.log.push(format!("   {}", t));
        }
    }

    pub fn fault(&mut self, kind: &'static str) {
        *self.faults.entry(kind).or_insert(0) += 1;
        self.nontrivial = true;
    }

    pub fn probe(&mut self, name: &'static str) {
        *self.probes.entry(name).or_insert(0) += 1;
    }

    pub fn probe_n(&mut self, name: &'static str, n: u64) {
        *self.probes.entry(name).or_insert(0) += n;
    }

    pub fn violation(&mut self, class: impl Into<String>, detail: impl Into<String>) {
        let class = class.into();
        if self.violations.iter().any(|v| v.class == class) {
            return;
        }
        self.mix(crate::rng::fnv1a(class.as_bytes()));
        let detail = detail.into();
        if self.keep_log {
            self.log.push(format!("   !! VIOLATION {} :: {}", class, detail));
        }
        self.violations.push(Violation { class, detail });
    }
}

// PANIC CAPTURE
// ------------------------------------------------------------------------------------------------

#[derive(Clone, Debug)]
pub struct PanicInfo {
    pub file: String,
    pub line: u32,
    pub msg: String,
}

impl PanicInfo {
    /// file (repository relative) + message with digit runs collapsed; no line number, so that
    /// the signature survives unrelated edits of the file
    pub fn signature(&self) -> String {
        // collapse parenthesised / bracketed groups (they hold run-specific values), then digits
        let mut flat = String::new();
        let mut depth = 0i32;
        for c in self.msg.chars() {
            match c {
                '(' | '[' => {
                    if depth == 0 {
                        flat.push(c);
                        flat.push_str("..");
                    }
                    depth += 1;
                },
                ')' | ']' => {
                    depth -= 1;
                    if depth == 0 {
                        flat.push(c);
                    }
                    if depth < 0 {
                        depth = 0;
                    }
                },
                _ if depth > 0 => {},
                _ => flat.push(c),
            }
        }
        let mut m = String::new();
        let mut last_digit = false;
        for c in flat.chars() {
            if c.is_ascii_digit() {
                if !last_digit {
                    m.push('#');
                }
                last_digit = true;
            } else {
                last_digit = false;
                m.push(if c == '\n' { ' ' } else { c });
            }
            if m.len() >= 110 {
                break;
            }
        }
        format!("{}: {}", self.file, m)
    }
}

thread_local! {
    static LAST_PANIC: RefCell<Option<PanicInfo>> = const { RefCell::new(None) };
}

static HOOK: Once = Once::new();

pub fn install_panic_hook() {
    HOOK.call_once(|| {
        panic::set_hook(Box::new(|info| {
            let (file, line) = match info.location() {
                Some(l) => (l.file().to_string(), l.line()),
                None => ("<unknown>".to_string(), 0),
            };
            let file = match file.find("/repo/") {
                Some(i) => file[i + 6..].to_string(),
                None => match file.find("/rustc/") {
                    Some(_) => format!("std:{}", file.rsplit("/library/").next().unwrap_or(&file)),
                    None => match file.find("/verif/sim/") {
                        Some(i) => format!("harness:{}", &file[i + 11..]),
                        None if file.starts_with("wfsim/") || file.starts_with("simcore/") || file.starts_with("simrayon/") => {
                            format!("harness:{file}")
                        },
                        None => file,
                    },
                },
            };
            let msg = if let Some(s) = info.payload().downcast_ref::<&str>() {
                s.to_string()
            } else if let Some(s) = info.payload().downcast_ref::<String>() {
                s.clone()
            } else {
                "<non-string panic payload>".to_string()
            };
            LAST_PANIC.with(|p| *p.borrow_mut() = Some(PanicInfo { file, line, msg }));
        }));
    });
}

/// Run `f`, turning a panic into `Err(PanicInfo)`. The hook is silent.
pub fn guard<R>(f: impl FnOnce() -> R) -> Result<R, PanicInfo> {
    install_panic_hook();
    LAST_PANIC.with(|p| *p.borrow_mut() = None);
    match panic::catch_unwind(AssertUnwindSafe(f)) {
        Ok(r) => Ok(r),
        Err(_) => Err(LAST_PANIC.with(|p| p.borrow_mut().take()).unwrap_or(PanicInfo {
            file: "<unknown>".into(),
            line: 0,
            msg: "<panic without hook record>".into(),
        })),
    }
}
