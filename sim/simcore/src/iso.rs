//! Process isolation for scenarios that may abort, overflow the stack, or hang.
//!
//! `IsoArm` wraps an arm: in the parent, `run` forwards the request to a persistent child
//! process (one per worker thread), which executes the real scenario and streams back its
//! result. The child announces its choice tape right before it enters the dangerous call
//! (`danger_zone`), so that when it dies the parent still knows the input that killed it.
//!
//! protocol (one line each, fields separated by '\t'):
//!   parent -> child:  R <run> <tier> <seed>            record mode
//!                     P <run> <tier> <seed> <v,v,...>  replay mode
//!   child  -> parent: T <v,v,...>                      tape so far (before the dangerous call)
//!                     N <text>                          log line (only when the parent keeps logs)
//!                     F <kind> <count> / B <probe> <count> / S <reason> / V <class>\t<detail>
//!                     D <events> <digest> <nontrivial>
//!                     E <v,v,...>                       end of run, effective tape

use std::cell::RefCell;
use std::collections::BTreeMap;
use std::io::{BufRead, BufReader, Write};
use std::process::{Child, ChildStdin, Command, Stdio};
use std::sync::mpsc::{channel, Receiver};
use std::time::Duration;

use crate::check::{Arm, RunInfo, Tier};
use crate::ctx::Ctx;
use crate::tape::Chooser;

thread_local! {
    static DANGER: RefCell<Option<Box<dyn FnMut(&[u64])>>> = const { RefCell::new(None) };
    static CHILDREN: RefCell<BTreeMap<String, Handle>> = const { RefCell::new(BTreeMap::new()) };
}

/// Called by a scenario right before it hands hostile input to the system under test.
pub fn danger_zone(ch: &Chooser) {
    DANGER.with(|d| {
        if let Some(f) = d.borrow_mut().as_mut() {
            f(&ch.values());
        }
    });
}

struct Handle {
    child: Child,
    stdin: ChildStdin,
    lines: Receiver<String>,
}

impl Drop for Handle {
    fn drop(&mut self) {
        let _ = self.child.kill();
        let _ = self.child.wait();
    }
}

fn join(vals: &[u64]) -> String {
    vals.iter().map(|v| v.to_string()).collect::<Vec<_>>().join(",")
}

fn split(s: &str) -> Vec<u64> {
    s.split(',').filter(|x| !x.is_empty()).filter_map(|x| x.parse().ok()).collect()
}

fn spawn(check_id: &str, arm: &str, exe_env: Option<&str>) -> std::io::Result<Handle> {
    // `exe_env` names an environment variable holding the path of another build of the harness
    // (e.g. the overflow-checking one); the worker then runs in that build
    let exe = match exe_env.and_then(|v| std::env::var(v).ok()) {
        Some(p) if std::path::Path::new(&p).exists() => std::path::PathBuf::from(p),
        Some(p) => return Err(std::io::Error::new(std::io::ErrorKind::NotFound, format!("worker binary {p} does not exist (run through ./check)"))),
        None if exe_env.is_some() => return Err(std::io::Error::new(std::io::ErrorKind::NotFound, format!("{} is not set (run through ./check)", exe_env.unwrap()))),
        None => std::env::current_exe()?,
    };
    // address-space limit in the child so that a runaway allocation fails there, not here
    let cmd = format!("ulimit -v {}; exec \"$0\" \"$@\"", 6 * 1024 * 1024);
    let mut child = Command::new("sh")
        .arg("-c")
        .arg(cmd)
        .arg(exe)
        .arg(check_id)
        .arg("--worker")
        .arg(arm)
        .stdin(Stdio::piped())
        .stdout(Stdio::piped())
        .stderr(Stdio::null())
        .spawn()?;
    let stdin = child.stdin.take().unwrap();
    let stdout = child.stdout.take().unwrap();
    let (tx, rx) = channel();
    std::thread::spawn(move || {
        let r = BufReader::new(stdout);
        for line in r.lines() {
            match line {
                Ok(l) => {
                    if tx.send(l).is_err() {
                        break;
                    }
                },
                Err(_) => break,
            }
        }
    });
    Ok(Handle { child, stdin, lines: rx })
}

/// length of one waiting slice, seconds of wall clock
const SLICE_S: u64 = 5;

/// user + system CPU time a process has consumed so far, in seconds (from /proc/<pid>/stat)
fn cpu_seconds(pid: u32) -> Option<u64> {
    let s = std::fs::read_to_string(format!("/proc/{pid}/stat")).ok()?;
    // the command name (field 2) may contain spaces: fields are counted after the last ')'
    let rest = &s[s.rfind(')')? + 1..];
    let f: Vec<&str> = rest.split_whitespace().collect();
    // rest starts at field 3 (state): utime = field 14, stime = field 15
    let ut: u64 = f.get(11)?.parse().ok()?;
    let st: u64 = f.get(12)?.parse().ok()?;
    Some((ut + st) / 100)
}

pub struct IsoArm {
    pub check_id: &'static str,
    pub inner: Box<dyn Arm>,
    /// seconds of its own CPU time the worker may spend on one run before it is declared hung
    pub timeout_s: u64,
    /// run the worker in the build whose path is in this environment variable
    pub exe_env: Option<&'static str>,
    /// name reported for this arm (the worker is asked for `inner.name()`)
    pub alias: Option<&'static str>,
}

impl Arm for IsoArm {
    fn name(&self) -> String {
        match self.alias {
            Some(a) => a.to_string(),
            None => self.inner.name(),
        }
    }
    fn runs(&self, tier: Tier, seed: u64) -> u64 {
        self.inner.runs(tier, seed)
    }
    fn exhaustive(&self) -> bool {
        self.inner.exhaustive()
    }
    fn prepare(&self, tier: Tier, seed: u64) {
        // the parent also needs the shared state to answer runs()
        self.inner.prepare(tier, seed)
    }
    fn time_cap_s(&self, tier: Tier) -> u64 {
        self.inner.time_cap_s(tier)
    }

    fn run(&self, info: &RunInfo, ch: &mut Chooser, ctx: &mut Ctx) {
        if std::env::var("VERIF_NO_ISOLATION").is_ok() {
            return self.inner.run(info, ch, ctx);
        }
        let arm = self.name();
        let inner_name = self.inner.name();
        let req = match ch.replay_values() {
            Some(v) => format!("P\t{}\t{}\t{}\t{}\n", info.run, info.tier.as_str(), info.seed, join(v)),
            None => format!("R\t{}\t{}\t{}\n", info.run, info.tier.as_str(), info.seed),
        };
        let keep = ctx.keep_log;
        let mut tape_seen: Vec<u64> = vec![];
        let mut finished = false;
        let mut death: Option<String> = None;
        CHILDREN.with(|c| {
            let mut c = c.borrow_mut();
            if !c.contains_key(&arm) {
                match spawn(self.check_id, &inner_name, self.exe_env) {
                    Ok(h) => {
                        c.insert(arm.clone(), h);
                    },
                    Err(e) => panic!("simcore: cannot spawn isolated worker: {e}"),
                }
            }
            let h = c.get_mut(&arm).unwrap();
            let req = if keep { req.replacen(['R', 'P'], if req.starts_with('R') { "r" } else { "p" }, 1) } else { req };
            if h.stdin.write_all(req.as_bytes()).and_then(|_| h.stdin.flush()).is_err() {
                death = Some("worker pipe closed before the request".into());
            }
            // "No termination" is decided on the worker's own CPU time, not on wall-clock silence:
            // a loaded machine (or a slower build) must never turn a slow answer into an alarm.
            // The wall-clock backstop (30 x the budget) only catches a worker that is blocked
            // without consuming CPU.
            let pid = h.child.id();
            let mut cpu0 = cpu_seconds(pid);
            let mut silent_wall = 0u64;
            while death.is_none() {
                match h.lines.recv_timeout(Duration::from_secs(SLICE_S)) {
                    Ok(line) => {
                        silent_wall = 0;
                        if line.starts_with("E\t") || line.starts_with('T') {
                            cpu0 = cpu_seconds(pid);
                        }
                        let mut it = line.splitn(2, '\t');
                        let tag = it.next().unwrap_or("");
                        let rest = it.next().unwrap_or("");
                        match tag {
                            "T" => tape_seen = split(rest),
                            "N" => {
                                if keep {
                                    ctx.log.push(rest.to_string());
                                }
                            },
                            "F" => {
                                let mut p = rest.splitn(2, '\t');
                                let k = p.next().unwrap_or("").to_string();
                                let n: u64 = p.next().unwrap_or("0").parse().unwrap_or(0);
                                *ctx.faults.entry(leak(k)).or_insert(0) += n;
                            },
                            "B" => {
                                let mut p = rest.splitn(2, '\t');
                                let k = p.next().unwrap_or("").to_string();
                                let n: u64 = p.next().unwrap_or("0").parse().unwrap_or(0);
                                *ctx.probes.entry(leak(k)).or_insert(0) += n;
                            },
                            "S" => ctx.skipped = Some(leak(rest.to_string())),
                            "V" => {
                                let mut p = rest.splitn(2, '\t');
                                let class = p.next().unwrap_or("").to_string();
                                let detail = p.next().unwrap_or("").to_string();
                                ctx.violation(class, detail);
                            },
                            "D" => {
                                let f: Vec<&str> = rest.split('\t').collect();
                                ctx.events += f.first().and_then(|x| x.parse().ok()).unwrap_or(0);
                                ctx.mix(f.get(1).and_then(|x| x.parse().ok()).unwrap_or(0));
                                ctx.nontrivial |= f.get(2) == Some(&"1");
                            },
                            "E" => {
                                tape_seen = split(rest);
                                finished = true;
                                break;
                            },
                            _ => {},
                        }
                    },
                    Err(std::sync::mpsc::RecvTimeoutError::Timeout) => {
                        silent_wall += SLICE_S;
                        let used = match (cpu0, cpu_seconds(pid)) {
                            (Some(a), Some(b)) => Some(b.saturating_sub(a)),
                            _ => None,
                        };
                        let over = match used {
                            Some(u) => u >= self.timeout_s || silent_wall >= 30 * self.timeout_s,
                            None => silent_wall >= 30 * self.timeout_s,
                        };
                        if over {
                            death = Some(format!(
                                "no answer after {} s of worker CPU time (hang or runaway computation)",
                                used.map(|u| u.to_string()).unwrap_or_else(|| "?".into())
                            ));
                        }
                    },
                    Err(std::sync::mpsc::RecvTimeoutError::Disconnected) => {
                        let st = h.child.wait().ok();
                        death = Some(match st {
                            Some(s) => {
                                use std::os::unix::process::ExitStatusExt;
                                match (s.signal(), s.code()) {
                                    (Some(sig), _) => format!("worker process killed by signal {sig}"),
                                    (_, Some(code)) => format!("worker process exited with status {code}"),
                                    _ => "worker process died".into(),
                                }
                            },
                            None => "worker process died".into(),
                        });
                    },
                }
            }
            if death.is_some() {
                c.remove(&arm); // kills and reaps; a fresh worker is started for the next run
            }
        });
        // make the parent's tape equal to the child's
        for v in &tape_seen {
            ch.pick_with("iso", u64::MAX, |_| *v);
        }
        if let Some(d) = death {
            let sig = d.split(" (").next().unwrap_or(&d).to_string();
            let class = if sig.contains("signal") || sig.contains("status") || sig.contains("died") {
                format!("{}/process-died {}", self.check_id, sig.replace(|c: char| c.is_ascii_digit(), "#").replace("##", "#"))
            } else {
                format!("{}/no-termination", self.check_id)
            };
            ctx.fault("isolated_worker_lost");
            ctx.violation(class, format!("{d} while handling the input announced by the worker (tape of {} choices); arm {} run {}", tape_seen.len(), arm, info.run));
        } else if !finished {
            panic!("simcore: isolated worker protocol error");
        }
    }
}

fn leak(s: String) -> &'static str {
    // fault / probe names come from a small fixed vocabulary; interning by leaking is bounded
    thread_local! { static INTERN: RefCell<BTreeMap<String, &'static str>> = const { RefCell::new(BTreeMap::new()) }; }
    INTERN.with(|m| {
        let mut m = m.borrow_mut();
        if let Some(v) = m.get(&s) {
            return *v;
        }
        let l: &'static str = Box::leak(s.clone().into_boxed_str());
        m.insert(s, l);
        l
    })
}

/// Child side: serve requests on stdin until EOF.
pub fn worker_main(arm: &dyn Arm) -> ! {
    crate::ctx::install_panic_hook();
    let stdin = std::io::stdin();
    let mut prepared: Option<(Tier, u64)> = None;
    for line in stdin.lock().lines() {
        let Ok(line) = line else { break };
        let f: Vec<&str> = line.split('\t').collect();
        if f.len() < 4 {
            continue;
        }
        let keep = f[0] == "r" || f[0] == "p";
        let run: u64 = f[1].parse().unwrap_or(0);
        let tier = if f[2] == "thorough" { Tier::Thorough } else { Tier::Quick };
        let seed: u64 = f[3].parse().unwrap_or(1);
        if prepared != Some((tier, seed)) {
            arm.prepare(tier, seed);
            prepared = Some((tier, seed));
        }
        let mut ch = if f[0] == "P" || f[0] == "p" {
            Chooser::replay(split(f.get(4).copied().unwrap_or("")))
        } else {
            Chooser::record(crate::rng::stream(seed, &arm.name(), run))
        };
        DANGER.with(|d| {
            *d.borrow_mut() = Some(Box::new(|vals: &[u64]| {
                let out = std::io::stdout();
                let mut o = out.lock();
                let _ = writeln!(o, "T\t{}", join(vals));
                let _ = o.flush();
            }))
        });
        let info = RunInfo { run, seed, tier };
        let mut ctx = Ctx::new(keep);
        let r = crate::ctx::guard(|| arm.run(&info, &mut ch, &mut ctx));
        if let Err(p) = r {
            if p.file.starts_with("harness:") || p.msg.starts_with("simcore:") {
                ctx.violation(format!("HARNESS-PANIC {}", p.signature()), format!("{}:{} {}", p.file, p.line, p.msg));
            } else {
                ctx.violation(format!("uncaught-panic {}", p.signature()), format!("panic escaped the scenario at {}:{}: {}", p.file, p.line, p.msg));
            }
        }
        let out = std::io::stdout();
        let mut o = out.lock();
        if keep {
            for l in &ctx.log {
                let _ = writeln!(o, "N\t{}", l.replace(['\n', '\t'], " "));
            }
        }
        for (k, v) in &ctx.faults {
            let _ = writeln!(o, "F\t{k}\t{v}");
        }
        for (k, v) in &ctx.probes {
            let _ = writeln!(o, "B\t{k}\t{v}");
        }
        if let Some(s) = ctx.skipped {
            let _ = writeln!(o, "S\t{s}");
        }
        for v in &ctx.violations {
            let _ = writeln!(o, "V\t{}\t{}", v.class.replace(['\n', '\t'], " "), v.detail.replace(['\n', '\t'], " "));
        }
        let _ = writeln!(o, "D\t{}\t{}\t{}", ctx.events, ctx.digest, ctx.nontrivial as u8);
        let _ = writeln!(o, "E\t{}", join(&ch.values()));
        let _ = o.flush();
    }
    std::process::exit(0)
}
