//! Batch runner, minimisation, replay files, known findings, evidence, exit codes.
//!
//! exit 0: property held on everything explored (known findings printed as KNOWN-FINDING)
//! exit 1: at least one violation class that known_findings.json does not list
//! exit 2: harness error

use std::collections::{BTreeMap, HashSet};
use std::path::{Path, PathBuf};
use std::sync::atomic::{AtomicU64, Ordering};
use std::sync::Mutex;
use std::time::{Duration, Instant};

use serde_json::{json, Value};

use crate::ctx::{guard, Ctx};
use crate::rng;
use crate::shrink;
use crate::tape::Chooser;

#[derive(Clone, Copy, Debug, PartialEq, Eq)]
pub enum Tier {
    Quick,
    Thorough,
}

impl Tier {
    pub fn as_str(&self) -> &'static str {
        match self {
            Tier::Quick => "quick",
            Tier::Thorough => "thorough",
        }
    }
}

#[derive(Clone, Copy, Debug)]
pub struct RunInfo {
    pub run: u64,
    pub seed: u64,
    pub tier: Tier,
}

pub trait Arm: Sync {
    fn name(&self) -> String;
    /// number of runs in this tier (for enumerated arms: the size of the space)
    fn runs(&self, tier: Tier, seed: u64) -> u64;
    fn run(&self, info: &RunInfo, ch: &mut Chooser, ctx: &mut Ctx);
    /// true when `runs()` enumerates a finite space completely
    fn exhaustive(&self) -> bool {
        false
    }
    /// build shared state (not timed as exploration)
    fn prepare(&self, _tier: Tier, _seed: u64) {}
    /// wall-clock cap for this arm in seconds (runs not started by then are reported as not run)
    fn time_cap_s(&self, tier: Tier) -> u64 {
        match tier {
            Tier::Quick => 240,
            Tier::Thorough => 3000,
        }
    }
}

pub struct FnArm<F: Fn(&RunInfo, &mut Chooser, &mut Ctx) + Sync> {
    pub name: &'static str,
    pub quick: u64,
    pub thorough: u64,
    pub f: F,
}

impl<F: Fn(&RunInfo, &mut Chooser, &mut Ctx) + Sync> Arm for FnArm<F> {
    fn name(&self) -> String {
        self.name.to_string()
    }
    fn runs(&self, tier: Tier, _seed: u64) -> u64 {
        match tier {
            Tier::Quick => self.quick,
            Tier::Thorough => self.thorough,
        }
    }
    fn run(&self, info: &RunInfo, ch: &mut Chooser, ctx: &mut Ctx) {
        (self.f)(info, ch, ctx)
    }
}

pub struct CheckSpec {
    pub id: &'static str,
    /// "exploration" | "fault_enumeration"
    pub level: &'static str,
    pub build: &'static str,
    pub rule: String,
    pub interleaving_measure: String,
    pub real: Vec<&'static str>,
    pub stub: Vec<&'static str>,
    pub assumptions: Vec<&'static str>,
    pub arms: Vec<Box<dyn Arm>>,
}

#[derive(Default)]
struct ArmResult {
    name: String,
    planned: u64,
    runs: u64,
    events: u64,
    faults: BTreeMap<&'static str, u64>,
    probes: BTreeMap<&'static str, u64>,
    skipped: BTreeMap<&'static str, u64>,
    distinct: HashSet<u64>,
    nontrivial_runs: u64,
    first_nontrivial: Option<u64>,
    /// class -> (lowest run index, detail, occurrences)
    classes: BTreeMap<String, (u64, String, u64)>,
    /// order independent combination of (run, digest)
    digest_sum: u64,
    wall_s: f64,
    exhaustive: bool,
}

fn workers() -> usize {
    std::env::var("VERIF_WORKERS")
        .ok()
        .and_then(|v| v.parse().ok())
        .unwrap_or_else(|| std::thread::available_parallelism().map(|n| n.get()).unwrap_or(4))
        .max(1)
}

pub fn verif_root() -> PathBuf {
    std::env::var("VERIF_ROOT").map(PathBuf::from).unwrap_or_else(|_| PathBuf::from("/verif"))
}

fn exec_run(arm: &dyn Arm, info: &RunInfo, ch: &mut Chooser, keep_log: bool) -> Ctx {
    let mut ctx = Ctx::new(keep_log);
    let r = guard(|| arm.run(info, ch, &mut ctx));
    if let Err(p) = r {
        if p.file.starts_with("harness:") || p.msg.starts_with("simcore:") {
            ctx.violation(format!("HARNESS-PANIC {}", p.signature()), format!("{}:{} {}", p.file, p.line, p.msg));
        } else {
            ctx.violation(
                format!("uncaught-panic {}", p.signature()),
                format!("panic escaped the scenario at {}:{}: {}", p.file, p.line, p.msg),
            );
        }
    }
    ctx
}

fn run_arm(arm: &dyn Arm, tier: Tier, seed: u64, runs_override: Option<u64>) -> ArmResult {
    arm.prepare(tier, seed);
    let planned = runs_override.unwrap_or_else(|| arm.runs(tier, seed));
    let name = arm.name();
    let next = AtomicU64::new(0);
    let t0 = Instant::now();
    let cap = Duration::from_secs(
        std::env::var("VERIF_TIME_CAP_S").ok().and_then(|v| v.parse().ok()).unwrap_or_else(|| arm.time_cap_s(tier)),
    );
    let merged = Mutex::new(ArmResult { name: name.clone(), planned, ..Default::default() });
    let nw = workers();
    std::thread::scope(|s| {
        for _ in 0..nw {
            s.spawn(|| {
                let mut local = ArmResult::default();
                loop {
                    let run = next.fetch_add(1, Ordering::Relaxed);
                    if run >= planned || t0.elapsed() > cap {
                        break;
                    }
                    let info = RunInfo { run, seed, tier };
                    let mut ch = Chooser::record(rng::stream(seed, &name, run));
                    let ctx = exec_run(arm, &info, &mut ch, false);
                    local.runs += 1;
                    local.events += ctx.events;
                    for (k, v) in &ctx.faults {
                        *local.faults.entry(k).or_insert(0) += v;
                    }
                    for (k, v) in &ctx.probes {
                        *local.probes.entry(k).or_insert(0) += v;
                    }
                    if let Some(sk) = ctx.skipped {
                        *local.skipped.entry(sk).or_insert(0) += 1;
                    }
                    if ctx.nontrivial {
                        local.nontrivial_runs += 1;
                        local.distinct.insert(ctx.digest);
                        local.first_nontrivial = Some(local.first_nontrivial.map_or(run, |r: u64| r.min(run)));
                    }
                    local.digest_sum = local
                        .digest_sum
                        .wrapping_add(rng::SplitMix64(ctx.digest ^ run.wrapping_mul(0x9E37_79B9_7F4A_7C15)).next());
                    for v in ctx.violations {
                        let e = local.classes.entry(v.class).or_insert((run, v.detail.clone(), 0));
                        if run < e.0 {
                            e.0 = run;
                            e.1 = v.detail;
                        }
                        e.2 += 1;
                    }
                }
                let mut m = merged.lock().unwrap();
                m.runs += local.runs;
                m.events += local.events;
                for (k, v) in local.faults {
                    *m.faults.entry(k).or_insert(0) += v;
                }
                for (k, v) in local.probes {
                    *m.probes.entry(k).or_insert(0) += v;
                }
                for (k, v) in local.skipped {
                    *m.skipped.entry(k).or_insert(0) += v;
                }
                m.nontrivial_runs += local.nontrivial_runs;
                m.distinct.extend(local.distinct);
                if let Some(r) = local.first_nontrivial {
                    m.first_nontrivial = Some(m.first_nontrivial.map_or(r, |x| x.min(r)));
                }
                m.digest_sum = m.digest_sum.wrapping_add(local.digest_sum);
                for (c, (run, detail, n)) in local.classes {
                    let e = m.classes.entry(c).or_insert((run, detail.clone(), 0));
                    if run < e.0 {
                        e.0 = run;
                        e.1 = detail;
                    }
                    e.2 += n;
                }
            });
        }
    });
    let mut r = merged.into_inner().unwrap();
    r.wall_s = t0.elapsed().as_secs_f64();
    r.exhaustive = arm.exhaustive() && r.runs == planned;
    r
}

// KNOWN FINDINGS
// ------------------------------------------------------------------------------------------------

#[derive(Clone, Debug)]
pub struct Finding {
    pub property: String,
    pub status: String, // "known" | "fixed"
    pub class: String,
    pub what: String,
    pub replay: Option<String>,
}

pub fn load_findings(root: &Path) -> Result<Vec<Finding>, String> {
    let p = root.join("known_findings.json");
    if !p.exists() {
        return Ok(vec![]);
    }
    let txt = std::fs::read_to_string(&p).map_err(|e| format!("{}: {e}", p.display()))?;
    let v: Value = serde_json::from_str(&txt).map_err(|e| format!("{}: {e}", p.display()))?;
    let mut out = vec![];
    for f in v["findings"].as_array().cloned().unwrap_or_default() {
        out.push(Finding {
            property: f["property"].as_str().unwrap_or("").to_string(),
            status: f["status"].as_str().unwrap_or("").to_string(),
            class: f["class"].as_str().unwrap_or("").to_string(),
            what: f["what"].as_str().unwrap_or("").to_string(),
            replay: f["replay"].as_str().map(|s| s.to_string()),
        });
    }
    Ok(out)
}

// REPLAY FILES
// ------------------------------------------------------------------------------------------------

fn class_slug(class: &str) -> String {
    let mut s: String =
        class.chars().map(|c| if c.is_ascii_alphanumeric() { c } else { '-' }).take(48).collect();
    while s.contains("--") {
        s = s.replace("--", "-");
    }
    format!("{}-{:08x}", s.trim_matches('-'), rng::fnv1a(class.as_bytes()) as u32)
}

fn write_replay(
    root: &Path,
    spec: &CheckSpec,
    arm: &str,
    tier: Tier,
    seed: u64,
    run: u64,
    class: &str,
    detail: &str,
    tape: &[u64],
    sites: &[String],
    log: &[String],
    shrink_note: &str,
) -> PathBuf {
    let dir = root.join("replays");
    let _ = std::fs::create_dir_all(&dir);
    let path = dir.join(format!("{}-{}-{}.json", spec.id, arm.replace('/', "_"), class_slug(class)));
    let v = json!({
        "property": spec.id,
        "arm": arm,
        "build": spec.build,
        "tier": tier.as_str(),
        "seed": seed,
        "run": run,
        "class": class,
        "detail": detail,
        "tape": tape,
        "tape_sites": sites,
        "minimisation": shrink_note,
        "history": log,
    });
    let _ = std::fs::write(&path, serde_json::to_string_pretty(&v).unwrap());
    path
}

struct Replay {
    arm: String,
    tier: Tier,
    seed: u64,
    run: u64,
    class: String,
    tape: Vec<u64>,
}

fn read_replay(path: &Path) -> Result<Replay, String> {
    let txt = std::fs::read_to_string(path).map_err(|e| format!("{}: {e}", path.display()))?;
    let v: Value = serde_json::from_str(&txt).map_err(|e| format!("{}: {e}", path.display()))?;
    Ok(Replay {
        arm: v["arm"].as_str().ok_or("replay: no arm")?.to_string(),
        tier: if v["tier"].as_str() == Some("thorough") { Tier::Thorough } else { Tier::Quick },
        seed: v["seed"].as_u64().ok_or("replay: no seed")?,
        run: v["run"].as_u64().ok_or("replay: no run")?,
        class: v["class"].as_str().ok_or("replay: no class")?.to_string(),
        tape: v["tape"]
            .as_array()
            .ok_or("replay: no tape")?
            .iter()
            .map(|x| x.as_u64().unwrap_or(0))
            .collect(),
    })
}

fn find_arm<'a>(spec: &'a CheckSpec, name: &str) -> Option<&'a dyn Arm> {
    spec.arms.iter().find(|a| a.name() == name).map(|a| a.as_ref())
}

/// Replays a file; returns (reproduced, log)
fn do_replay(spec: &CheckSpec, path: &Path, verbose: bool) -> Result<bool, String> {
    let rp = read_replay(path)?;
    let arm = find_arm(spec, &rp.arm).ok_or_else(|| format!("replay: unknown arm {}", rp.arm))?;
    arm.prepare(rp.tier, rp.seed);
    let info = RunInfo { run: rp.run, seed: rp.seed, tier: rp.tier };
    let mut ch = Chooser::replay(rp.tape.clone());
    let ctx = exec_run(arm, &info, &mut ch, true);
    if verbose {
        for l in &ctx.log {
            println!("{l}");
        }
    }
    Ok(ctx.violations.iter().any(|v| v.class == rp.class))
}

// MAIN ENTRY
// ------------------------------------------------------------------------------------------------

pub fn usage(spec: &CheckSpec) -> ! {
    eprintln!(
        "usage: <bin> {} quick|thorough | --replay <file> | --digest <runs> | --one <arm> <run>",
        spec.id
    );
    std::process::exit(2)
}

/// args: what follows the property id on the command line
pub fn main_for(spec: CheckSpec, args: &[String]) -> i32 {
    crate::ctx::install_panic_hook();
    // a panic that escapes every scenario guard is a harness error (exit 2, never silent)
    match crate::ctx::guard(|| main_inner(spec, args)) {
        Ok(code) => code,
        Err(p) => {
            eprintln!("HARNESS-ERROR panic outside a run: {}:{}: {}", p.file, p.line, p.msg);
            2
        },
    }
}

fn main_inner(spec: CheckSpec, args: &[String]) -> i32 {
    let root = verif_root();
    let seed: u64 = std::env::var("VERIF_SEED").ok().and_then(|v| v.parse().ok()).unwrap_or(1);
    let findings = match load_findings(&root) {
        Ok(f) => f,
        Err(e) => {
            eprintln!("HARNESS-ERROR {e}");
            return 2;
        },
    };

    match args.first().map(|s| s.as_str()) {
        Some("--replay") => {
            let Some(p) = args.get(1) else { usage(&spec) };
            match do_replay(&spec, Path::new(p), true) {
                Ok(true) => {
                    println!("VIOLATION property={} replay={}", spec.id, p);
                    1
                },
                Ok(false) => {
                    println!("replay {} did not reproduce its violation class", p);
                    0
                },
                Err(e) => {
                    eprintln!("HARNESS-ERROR {e}");
                    2
                },
            }
        },
        Some("--digest") => {
            let n: u64 = args.get(1).and_then(|v| v.parse().ok()).unwrap_or(2000);
            println!("seed={seed} workers={}", workers());
            for arm in &spec.arms {
                let planned = arm.runs(Tier::Quick, seed).min(n);
                let r = run_arm(arm.as_ref(), Tier::Quick, seed, Some(planned));
                println!("digest arm={} runs={} sum={:016x} classes={}", r.name, r.runs, r.digest_sum, r.classes.len());
            }
            0
        },
        Some("--worker") => {
            let Some(a) = args.get(1) else { usage(&spec) };
            let Some(arm) = find_arm(&spec, a) else { usage(&spec) };
            // the worker serves the *inner* arm: isolation is switched off inside the child
            std::env::set_var("VERIF_NO_ISOLATION", "1");
            crate::iso::worker_main(arm)
        },
        Some("--one") => {
            let (Some(a), Some(r)) = (args.get(1), args.get(2).and_then(|v| v.parse::<u64>().ok())) else {
                usage(&spec)
            };
            let tier = if args.get(3).map(|s| s.as_str()) == Some("thorough") { Tier::Thorough } else { Tier::Quick };
            let Some(arm) = find_arm(&spec, a) else { usage(&spec) };
            arm.prepare(tier, seed);
            let info = RunInfo { run: r, seed, tier };
            let mut ch = Chooser::record(rng::stream(seed, &arm.name(), r));
            let ctx = exec_run(arm, &info, &mut ch, true);
            for l in &ctx.log {
                println!("{l}");
            }
            println!("tape: {:?}", ch.values());
            println!("violations: {:?}", ctx.violations);
            0
        },
        Some(t @ ("quick" | "thorough")) => {
            let tier = if t == "quick" { Tier::Quick } else { Tier::Thorough };
            run_check(&spec, tier, seed, &root, &findings)
        },
        _ => usage(&spec),
    }
}

fn run_check(spec: &CheckSpec, tier: Tier, seed: u64, root: &Path, findings: &[Finding]) -> i32 {
    let t0 = Instant::now();
    println!("VERIF_SEED={seed} property={} tier={} build={} workers={}", spec.id, tier.as_str(), spec.build, workers());

    let mut exit = 0;
    let mut known_printed: Vec<String> = vec![];
    let mut known_replayed = vec![];
    let mut violations_new = 0u64;
    let mut harness_errors = 0u64;

    // 1. replay the listed known findings of this property
    for f in findings.iter().filter(|f| f.property == spec.id && f.status == "known") {
        let mut reproduced = None;
        if let Some(rp) = &f.replay {
            match do_replay(spec, &root.join(rp), false) {
                Ok(b) => reproduced = Some(b),
                Err(e) => {
                    eprintln!("HARNESS-ERROR known finding replay: {e}");
                    harness_errors += 1;
                },
            }
        }
        if reproduced == Some(true) {
            println!("KNOWN-FINDING: property={} {} [class: {}] (replayed {})", spec.id, f.what, f.class, f.replay.as_deref().unwrap_or(""));
            known_printed.push(f.class.clone());
        } else if reproduced == Some(false) {
            println!("note: listed finding no longer reproduces from its replay file: {} [{}]", f.what, f.class);
        }
        known_replayed.push(json!({"class": f.class, "what": f.what, "replay": f.replay, "reproduced": reproduced}));
    }

    // 2. the batches
    let mut arm_results = vec![];
    for arm in &spec.arms {
        let r = run_arm(arm.as_ref(), tier, seed, None);
        println!(
            "arm {:<22} runs {:>9}/{:<9} events {:>11} nontrivial {:>9} distinct {:>9} classes {} wall {:.1}s",
            r.name,
            r.runs,
            r.planned,
            r.events,
            r.nontrivial_runs,
            r.distinct.len(),
            r.classes.len(),
            r.wall_s
        );
        arm_results.push(r);
    }

    // 3. minimise and report every violation class
    let mut reported = vec![];
    for (arm, r) in spec.arms.iter().zip(arm_results.iter()) {
        for (class, (run, detail, count)) in &r.classes {
            if class.starts_with("HARNESS-PANIC") {
                eprintln!("HARNESS-ERROR arm={} run={} {}", r.name, run, detail);
                harness_errors += 1;
                continue;
            }
            let info = RunInfo { run: *run, seed, tier };
            // recover the tape
            let mut ch = Chooser::record(rng::stream(seed, &r.name, *run));
            let _ = exec_run(arm.as_ref(), &info, &mut ch, false);
            let start = ch.values();
            let budget = if tier == Tier::Quick { 400 } else { 3000 };
            let (min_tape, st) = shrink::shrink(
                start,
                |cand| {
                    let mut c = Chooser::replay(cand.to_vec());
                    let ctx = exec_run(arm.as_ref(), &info, &mut c, false);
                    ctx.violations.iter().any(|v| &v.class == class)
                },
                budget,
                Duration::from_secs(if tier == Tier::Quick { 20 } else { 120 }),
            );
            let mut c = Chooser::replay(min_tape.clone());
            let ctx = exec_run(arm.as_ref(), &info, &mut c, true);
            let still = ctx.violations.iter().find(|v| &v.class == class);
            let det = still.map(|v| v.detail.clone()).unwrap_or_else(|| detail.clone());
            let sites: Vec<String> = c.tape.iter().map(|e| format!("{}<{}={}", e.site, e.n, e.v)).collect();
            let path = write_replay(
                root,
                spec,
                &r.name,
                tier,
                seed,
                *run,
                class,
                &det,
                &min_tape,
                &sites,
                &ctx.log,
                &format!("tape {} -> {} entries in {} re-executions", st.from_len, st.to_len, st.tests),
            );
            let known = findings.iter().find(|f| f.property == spec.id && f.status == "known" && &f.class == class);
            match known {
                Some(f) => {
                    if !known_printed.contains(class) {
                        println!("KNOWN-FINDING: property={} {} [class: {}] ({} runs, e.g. {})", spec.id, f.what, class, count, path.display());
                        known_printed.push(class.clone());
                    }
                },
                None => {
                    println!("VIOLATION property={} replay={}", spec.id, path.display());
                    println!("  class: {class}");
                    println!("  detail: {det}");
                    println!("  arm={} run={} seed={} occurrences={} minimised tape: {} entries", r.name, run, seed, count, min_tape.len());
                    violations_new += 1;
                    exit = 1;
                },
            }
            reported.push(json!({"arm": r.name, "class": class, "detail": det, "runs_hit": count, "first_run": run,
                "known": known.is_some(), "replay": path.display().to_string()}));
        }
    }

    // 4. evidence
    let wall = t0.elapsed().as_secs_f64();
    let evaluations: u64 = arm_results.iter().map(|r| r.runs).sum();
    let distinct: u64 = arm_results.iter().map(|r| r.distinct.len() as u64).sum();
    let events: u64 = arm_results.iter().map(|r| r.events).sum();
    let mut faults: BTreeMap<String, u64> = BTreeMap::new();
    let mut probes: BTreeMap<String, u64> = BTreeMap::new();
    for r in &arm_results {
        for (k, v) in &r.faults {
            *faults.entry(k.to_string()).or_insert(0) += v;
        }
        for (k, v) in &r.probes {
            *probes.entry(k.to_string()).or_insert(0) += v;
        }
    }
    // samples: one logged run per arm (the first non-trivial one if there is one)
    let mut samples = vec![];
    for (arm, r) in spec.arms.iter().zip(arm_results.iter()) {
        if r.runs == 0 {
            continue;
        }
        let run = r.first_nontrivial.unwrap_or(0);
        let info = RunInfo { run, seed, tier };
        let mut ch = Chooser::record(rng::stream(seed, &r.name, run));
        let ctx = exec_run(arm.as_ref(), &info, &mut ch, true);
        let log: Vec<&String> = ctx.log.iter().take(60).collect();
        samples.push(json!({"arm": r.name, "run": run, "tape_len": ch.tape.len(), "history": log}));
    }
    let arms_json: Vec<Value> = arm_results
        .iter()
        .map(|r| {
            json!({
                "arm": r.name, "planned": r.planned, "runs": r.runs, "events": r.events,
                "nontrivial_runs": r.nontrivial_runs, "distinct_nontrivial": r.distinct.len(),
                "exhaustive": r.exhaustive, "wall_s": (r.wall_s * 100.0).round() / 100.0,
                "skipped": r.skipped.iter().map(|(k, v)| (k.to_string(), json!(v))).collect::<serde_json::Map<_, _>>(),
                "violation_classes": r.classes.len(),
            })
        })
        .collect();
    let all_exhaustive = !arm_results.is_empty() && arm_results.iter().all(|r| r.exhaustive);
    let explore_wall: f64 = arm_results.iter().map(|r| r.wall_s).sum::<f64>().max(1e-6);
    let ev = json!({
        "property_id": spec.id,
        "tier": tier.as_str(),
        "seed": seed,
        "level": spec.level,
        "wall_s": (wall * 100.0).round() / 100.0,
        "violations": violations_new,
        "coverage": {
            "evaluations": evaluations,
            "distinct_nontrivial": distinct,
            "rule": spec.rule,
            "samples": samples,
            "exhaustive": all_exhaustive,
            "simulated_runs_per_hour": (evaluations as f64 / explore_wall * 3600.0) as u64,
            "seeds": format!("master seed {seed}; run r of arm A uses stream SplitMix64(seed, fnv(A), r)"),
            "simulated_time_events": events,
            "fault_kinds_fired": faults,
            "reach_probes": probes,
            "interleaving_measure": spec.interleaving_measure,
            "arms": arms_json,
            "real_code": spec.real,
            "stubbed": spec.stub,
            "build": spec.build,
            "known_findings_replayed": known_replayed,
            "violation_classes_reported": reported,
        },
        "assumptions": spec.assumptions,
    });
    let evdir = root.join("evidence");
    let _ = std::fs::create_dir_all(&evdir);
    let evpath = evdir.join(format!("{}.json", spec.id));
    if let Err(e) = std::fs::write(&evpath, serde_json::to_string_pretty(&ev).unwrap()) {
        eprintln!("HARNESS-ERROR cannot write evidence {}: {e}", evpath.display());
        return 2;
    }
    println!(
        "property={} tier={} runs={} distinct_nontrivial={} violations={} known={} wall={:.1}s evidence={}",
        spec.id,
        tier.as_str(),
        evaluations,
        distinct,
        violations_new,
        known_printed.len(),
        wall,
        evpath.display()
    );
    if harness_errors > 0 && exit == 0 {
        return 2;
    }
    exit
}
