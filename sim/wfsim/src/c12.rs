//! C12 — serialization round trip on every byte source and sink. What the simulator decides is
//! "exactly the written bytes are consumed, whichever byte-source implementation is used":
//! SliceReader, Cursor and ReadAdapter over a chunking simulated source must agree, and a
//! chunking / interrupting Write sink must receive the same bytes as a Vec. Values are
//! generator-driven workload (boundary members of every serializable type).

use std::cell::RefCell;
use std::collections::{BTreeMap, BTreeSet};
use std::fmt::Debug;
use std::io::Cursor;

use air::proof::{Commitments, Context, OodFrame, Proof, Queries};
use air::{FieldExtension, ProofOptions, TraceInfo};
use crypto::hashers::{Blake3_192, Blake3_256, Rp62_248, Rp64_256, RpJive64_256, Sha3_256};
use crypto::{DefaultRandomCoin, ElementHasher, Hasher};
use fri::FriProof;
use math::fields::{f128, f62, f64, CubeExtension, QuadExtension};
use math::FieldElement;
use simcore::{guard, Arm, CheckSpec, Chooser, Ctx, FnArm, RunInfo, Tier};
use utils::{ByteReader, ByteWriter, Deserializable, ReadAdapter, Serializable, SliceReader};

use crate::dispatch::*;
use crate::pipe::*;
use crate::proto::*;
use crate::simio::{ReadFaults, ReadStats, SimRead, SimWrite, World, WriteFaults, CHUNK_STYLES};

fn check<T: Serializable + Deserializable + PartialEq + Debug>(ch: &mut Chooser, ctx: &mut Ctx, ty: &'static str, x: &T) {
    let bytes = x.to_bytes();
    ctx.event_with("value", simcore::rng::fnv1a(&bytes), || {
        let d = format!("{:?}", x);
        format!("{ty}: {} bytes, value {}", bytes.len(), if d.len() > 80 { format!("{}..", &d[..80]) } else { d })
    });
    ctx.probe(ty);
    // sink side: a chunking / interrupting writer must receive the same bytes
    {
        let world = RefCell::new(World { ch, ctx });
        let mut sink = SimWrite { w: &world, out: vec![], faults: WriteFaults { short: true, interrupted: true, fail_after: None } };
        let r = guard(|| x.write_into(&mut sink));
        let out = std::mem::take(&mut sink.out);
        let w = world.into_inner();
        match r {
            Err(p) => {
                w.ctx.violation(format!("C12/{ty}/sink-panic {}", p.signature()), format!("write_into a short-writing sink panicked: {}:{} {}", p.file, p.line, p.msg));
                return;
            },
            Ok(()) if out != bytes => {
                w.ctx.violation(format!("C12/{ty}/sink-bytes-differ"), format!("a sink that accepts short writes received {} bytes, to_bytes() gives {}", out.len(), bytes.len()));
                return;
            },
            _ => {},
        }
    }
    let nsuf = ch.index("suffix.len", 9);
    let salt = ch.u64("suffix.salt");
    let mut r = simcore::rng::Xoshiro::from_u64(salt);
    let suffix: Vec<u8> = (0..nsuf).map(|_| r.next() as u8).collect();
    let mut stream = bytes.clone();
    stream.extend_from_slice(&suffix);

    // one generic routine per reader: decode, then the reader must yield exactly the suffix
    fn after<R: ByteReader, T: Deserializable + PartialEq>(rd: &mut R, x: &T, suffix: &[u8]) -> Result<(), String> {
        let y = T::read_from(rd).map_err(|e| format!("decode-error {}", crate::pipe::variant_name(&format!("{:?}", e))))?;
        if y != *x {
            return Err("value-differs".into());
        }
        let rest = rd.read_slice(suffix.len()).map_err(|_| "consumed-too-much".to_string())?.to_vec();
        if rest != suffix {
            return Err("consumed-wrong-number-of-bytes".into());
        }
        if rd.has_more_bytes() {
            return Err("consumed-too-little".into());
        }
        Ok(())
    }
    let res_slice = guard(|| after(&mut SliceReader::new(&stream), x, &suffix));
    let res_cursor = guard(|| after(&mut Cursor::new(&stream), x, &suffix));
    let res_adapter = {
        let style = CHUNK_STYLES[ch.weighted("chunk.style", &[1, 2, 2, 3, 4, 4])];
        let k = ch.biased("chunk.k", 1, 300, &[2, 3, 7, 8, 9, 255, 256]) as usize;
        let stats = ReadStats::default();
        let world = RefCell::new(World { ch, ctx });
        let r = {
            let mut src = SimRead::new(&world, &stream, style, k, ReadFaults::default(), &stats);
            let mut adapter = ReadAdapter::new(&mut src);
            stats.begin_op(16);
            guard(|| after(&mut adapter, x, &suffix))
        };
        let w = world.into_inner();
        w.ctx.fault("chunked_source");
        r
    };
    for (reader, res) in [("SliceReader", res_slice), ("Cursor", res_cursor), ("ReadAdapter", res_adapter)] {
        match res {
            Ok(Ok(())) => {},
            Ok(Err(how)) => {
                ctx.violation(
                    format!("C12/{ty}/{reader}/{how}"),
                    format!("{reader}: {how} for a {ty} of {} encoded bytes followed by {} other bytes", bytes.len(), suffix.len()),
                );
                return;
            },
            Err(p) => {
                ctx.violation(format!("C12/{ty}/{reader}/panic {}", p.signature()), format!("{}:{} {}", p.file, p.line, p.msg));
                return;
            },
        }
    }
}

fn boundary_usize(ch: &mut Chooser) -> usize {
    let k = ch.index("usize.k", 9) as u32;
    let base: u64 = match ch.weighted("usize.kind", &[2, 6, 2, 1]) {
        0 => ch.pick("usize.small", 300),
        1 => {
            let p = 1u64.checked_shl(7 * (k + 1)).unwrap_or(0);
            [p.wrapping_sub(1), p, p.wrapping_add(1)][ch.index("usize.pm", 3)]
        },
        2 => [0u64, 1, 127, 128, 129, 255, 256, 1 << 56, u64::MAX, u64::MAX - 1, (1 << 56) - 1][ch.index("usize.edge", 11)],
        _ => ch.u64("usize.any"),
    };
    base as usize
}

fn gen_len(ch: &mut Chooser) -> usize {
    ch.biased("len", 0, 300, &[0, 1, 2, 127, 128, 129, 255, 256, 257]) as usize
}

fn rand_bytes(ch: &mut Chooser, n: usize) -> Vec<u8> {
    let salt = ch.u64("bytes.salt");
    let mut r = simcore::rng::Xoshiro::from_u64(salt);
    (0..n).map(|_| r.next() as u8).collect()
}

fn gen_elem<E: FieldElement>(ch: &mut Chooser) -> E {
    match ch.weighted("elem.kind", &[3, 1, 1, 1]) {
        0 => {
            let salt = ch.u64("elem.salt");
            let mut r = simcore::rng::Xoshiro::from_u64(salt);
            crate::c05::rand_elem::<E>(&mut r)
        },
        1 => E::ZERO,
        2 => E::ONE,
        _ => E::ZERO - E::ONE,
    }
}

fn primitives(ch: &mut Chooser, ctx: &mut Ctx) {
    match ch.index("prim.type", 31) {
        0 => {
            let v = (ch.pick("v", 256) as u8);
            check(ch, ctx, "u8", &v)
        },
        1 => {
            let v = [0u16, 1, 255, 256, u16::MAX][ch.index("v", 5)];
            check(ch, ctx, "u16", &v)
        },
        2 => {
            let v = [0u32, 1, 65535, 65536, u32::MAX][ch.index("v", 5)];
            check(ch, ctx, "u32", &v)
        },
        3 => {
            let v = ch.u64("v");
            check(ch, ctx, "u64", &v)
        },
        4 => {
            let v = (((ch.u64("hi") as u128) << 64) | ch.u64("lo") as u128);
            check(ch, ctx, "u128", &v)
        },
        5 | 6 => {
            let v = boundary_usize(ch);
            check(ch, ctx, "usize", &v)
        },
        7 => {
            let v = if ch.chance("some?", 2, 3) { Some(ch.u64("v")) } else { None };
            check(ch, ctx, "Option<u64>", &v)
        },
        8 => {
            let n = gen_len(ch);
            let v = if ch.chance("some?", 2, 3) { Some(rand_bytes(ch, n)) } else { None };
            check(ch, ctx, "Option<Vec<u8>>", &v)
        },
        9 => {
            let v = (ch.pick("a", 256) as u8, ch.u64("b") as u32);
            check(ch, ctx, "(u8,u32)", &v)
        },
        10 => {
            let a = boundary_usize(ch);
            let b = ch.u64("b");
            check(ch, ctx, "(usize,u64)", &(a, b))
        },
        11 => {
            let n = gen_len(ch);
            let s: String = rand_bytes(ch, n).iter().map(|b| if b % 7 != 0 { (b' ' + b % 90) as char } else { 'é' }).collect();
            let b = ch.u64("b") as u32;
            check(ch, ctx, "(String,u32)", &(s, b))
        },
        12 => {
            let v = [ch.u64("a") as u16, ch.u64("b") as u16, ch.u64("c") as u16];
            check(ch, ctx, "[u16;3]", &v)
        },
        13 => {
            let b = rand_bytes(ch, 32);
            let a: [u8; 32] = b.try_into().unwrap();
            check(ch, ctx, "[u8;32]", &a)
        },
        14 => {
            let n = gen_len(ch);
            let s: String = rand_bytes(ch, n).iter().map(|b| match b % 11 { 0 => 'ß', 1 => '€', _ => (b' ' + b % 90) as char }).collect();
            check(ch, ctx, "String", &s)
        },
        15 => {
            let n = gen_len(ch);
            let v = rand_bytes(ch, n);
            check(ch, ctx, "Vec<u8>", &v)
        },
        16 => {
            let n = gen_len(ch);
            let v: Vec<u64> = rand_bytes(ch, n).iter().map(|b| (*b as u64) << 40 | 7).collect();
            check(ch, ctx, "Vec<u64>", &v)
        },
        17 => {
            let n = gen_len(ch).min(140);
            let v: Vec<String> = (0..n).map(|i| "x".repeat(i % 5)).collect();
            check(ch, ctx, "Vec<String>", &v)
        },
        18 => {
            let n = gen_len(ch).min(256);
            let m: BTreeMap<u8, u16> = (0..n).map(|i| (i as u8, (i * 257) as u16)).collect();
            check(ch, ctx, "BTreeMap<u8,u16>", &m)
        },
        19 => {
            let n = gen_len(ch);
            let s: BTreeSet<u32> = (0..n as u32).map(|i| i.wrapping_mul(2654435761)).collect();
            check(ch, ctx, "BTreeSet<u32>", &s)
        },
        20 => {
            let n = gen_len(ch).min(40);
            let v: Vec<Option<(u8, Vec<u16>)>> = (0..n).map(|i| if i % 3 == 0 { None } else { Some((i as u8, vec![i as u16; i % 4])) }).collect();
            check(ch, ctx, "Vec<Option<(u8,Vec<u16>)>>", &v)
        },
        21 => {
            let n = gen_len(ch).min(130);
            let v: Vec<(usize, u64)> = (0..n).map(|i| (i * 16000 + 127, i as u64)).collect();
            check(ch, ctx, "Vec<(usize,u64)>", &v)
        },
        // tuples of every implemented arity (their field order is the wire order)
        22 => {
            let v = (boundary_usize(ch),);
            check(ch, ctx, "(usize,)", &v)
        },
        23 => {
            let v = (ch.pick("a", 256) as u8, ch.u64("b") as u16, ch.u64("c") as u32);
            check(ch, ctx, "(u8,u16,u32)", &v)
        },
        24 => {
            let n = gen_len(ch).min(50);
            let v = (ch.pick("a", 256) as u8, rand_bytes(ch, n), ch.u64("c"), if ch.chance("some?", 1, 2) { Some(ch.u64("d") as u16) } else { None });
            check(ch, ctx, "(u8,Vec<u8>,u64,Option<u16>)", &v)
        },
        25 => {
            let v = (ch.u64("a") as u16, ch.pick("b", 256) as u8, ch.u64("c") as u128, ch.u64("d") as u32, boundary_usize(ch));
            check(ch, ctx, "(u16,u8,u128,u32,usize)", &v)
        },
        26 => {
            let v = (ch.pick("a", 256) as u8, ch.u64("b") as u16, ch.u64("c") as u32, ch.u64("d"), ch.u64("e") as u128, "s".repeat(ch.index("f", 4)));
            check(ch, ctx, "(u8,u16,u32,u64,u128,String)", &v)
        },
        28 => {
            // records of length-prefixed byte strings of very different lengths: a streaming
            // reader serves them with slice reads only (no fixed-width read in between), draining
            // and growing its buffer by turns
            let k = 2 + ch.index("strs.count", 10);
            let v: Vec<String> = (0..k)
                .map(|_| {
                    let n = [0usize, 1, 15, 16, 17, 100, 255, 256, 257, 300, 511, 600][ch.index("strs.len", 12)];
                    rand_bytes(ch, n).iter().map(|b| (b' ' + b % 90) as char).collect()
                })
                .collect();
            check(ch, ctx, "Vec<String>(long)", &v)
        },
        29 => {
            let (a, b, c) = (gen_len(ch), gen_len(ch), gen_len(ch));
            let s1: String = rand_bytes(ch, a).iter().map(|b| (b' ' + b % 90) as char).collect();
            let s2: String = rand_bytes(ch, b).iter().map(|b| (b'0' + b % 40) as char).collect();
            let s3: String = rand_bytes(ch, c).iter().map(|b| (b' ' + b % 90) as char).collect();
            check(ch, ctx, "(String,String,String)", &(s1, s2, s3))
        },
        27 => {
            // the unit type occupies no bytes: n units are a length prefix and nothing else
            let n = gen_len(ch).min(300);
            let v: Vec<()> = vec![(); n];
            check(ch, ctx, "Vec<()>", &v)
        },
        _ => {
            // writers for borrowed values: &T, [T] and str must produce what the owned forms
            // produce (length prefix, then the elements), so that they decode as Vec<T> / String
            let n = gen_len(ch).min(200);
            let v: Vec<u32> = rand_bytes(ch, n).iter().map(|b| (*b as u32) << 9 | 5).collect();
            let mut a = vec![];
            a.write(&v);
            if a != v.to_bytes() {
                ctx.violation("C12/&Vec<u32>/bytes-differ-from-owned", format!("writing &Vec<u32> of {n} elements gives other bytes than writing the vector"));
            }
            let mut b = vec![];
            v[..].write_into(&mut b);
            if b != v.to_bytes() {
                ctx.violation("C12/[u32]/bytes-differ-from-Vec", format!("writing a slice of {n} u32 gives other bytes than writing the vector (a slice must decode as Vec<T>)"));
            }
            let s: String = rand_bytes(ch, n).iter().map(|b| (b' ' + b % 90) as char).collect();
            let mut c = vec![];
            s.as_str().write_into(&mut c);
            if c != s.to_bytes() {
                ctx.violation("C12/str/bytes-differ-from-String", format!("writing a str of {n} bytes gives other bytes than writing the String"));
            }
            check(ch, ctx, "Vec<u32>", &v)
        },
    }
}

fn digest_of<H: Hasher>(ch: &mut Chooser) -> H::Digest {
    let b = rand_bytes(ch, 12);
    H::hash(&b)
}

fn algebra(ch: &mut Chooser, ctx: &mut Ctx) {
    type F62 = f62::BaseElement;
    type F64 = f64::BaseElement;
    type F128 = f128::BaseElement;
    match ch.index("alg.type", 20) {
        0 => {
            let v = gen_elem::<F62>(ch);
            check(ch, ctx, "f62", &v)
        },
        1 => {
            let v = gen_elem::<F64>(ch);
            check(ch, ctx, "f64", &v)
        },
        2 => {
            let v = gen_elem::<F128>(ch);
            check(ch, ctx, "f128", &v)
        },
        3 => {
            let v = gen_elem::<QuadExtension<F62>>(ch);
            check(ch, ctx, "quad<f62>", &v)
        },
        4 => {
            let v = gen_elem::<QuadExtension<F64>>(ch);
            check(ch, ctx, "quad<f64>", &v)
        },
        5 => {
            let v = gen_elem::<QuadExtension<F128>>(ch);
            check(ch, ctx, "quad<f128>", &v)
        },
        6 => {
            let v = gen_elem::<CubeExtension<F62>>(ch);
            check(ch, ctx, "cube<f62>", &v)
        },
        7 => {
            let v = gen_elem::<CubeExtension<F64>>(ch);
            check(ch, ctx, "cube<f64>", &v)
        },
        8 => {
            let n = gen_len(ch).min(70);
            let v: Vec<CubeExtension<F64>> = (0..n).map(|_| gen_elem(ch)).collect();
            check(ch, ctx, "Vec<cube<f64>>", &v)
        },
        9 => {
            let n = gen_len(ch).min(70);
            let v: Vec<F62> = (0..n).map(|_| gen_elem(ch)).collect();
            check(ch, ctx, "Vec<f62>", &v)
        },
        10 => {
            let v = digest_of::<Blake3_192<F64>>(ch);
            check(ch, ctx, "ByteDigest<24>", &v)
        },
        11 => {
            let v = digest_of::<Blake3_256<F64>>(ch);
            check(ch, ctx, "ByteDigest<32>", &v)
        },
        12 => {
            let v = digest_of::<Sha3_256<F128>>(ch);
            check(ch, ctx, "ByteDigest<32>/sha3", &v)
        },
        13 => {
            let v = digest_of::<Rp64_256>(ch);
            check(ch, ctx, "ElementDigest/rp64_256", &v)
        },
        14 => {
            let v = digest_of::<Rp62_248>(ch);
            check(ch, ctx, "ElementDigest/rp62_248", &v)
        },
        15 => {
            let v = digest_of::<RpJive64_256>(ch);
            check(ch, ctx, "ElementDigest/rp64_256_jive", &v)
        },
        16 => {
            let n = gen_len(ch).min(70);
            let v: Vec<<Rp64_256 as Hasher>::Digest> = (0..n).map(|_| digest_of::<Rp64_256>(ch)).collect();
            check(ch, ctx, "Vec<ElementDigest>", &v)
        },
        17 => {
            let v = [FieldExtension::None, FieldExtension::Quadratic, FieldExtension::Cubic][ch.index("v", 3)];
            check(ch, ctx, "FieldExtension", &v)
        },
        18 => {
            let o = gen_boundary_options(ch);
            check(ch, ctx, "ProofOptions", &o)
        },
        _ => {
            if ch.chance("t.oversized?", 1, 12) {
                if let Some(t) = gen_oversized_trace_info(ch, ctx) {
                    check(ch, ctx, "TraceInfo(metadata beyond 65535 bytes)", &t);
                }
                return;
            }
            let t = gen_trace_info(ch);
            check(ch, ctx, "TraceInfo", &t);
            // and a context around it, when the constructor accepts the combination
            let o = gen_boundary_options(ch);
            if t.length().saturating_mul(o.blowup_factor()) <= u32::MAX as usize {
                let c = match ch.index("ctx.field", 3) {
                    0 => Context::new::<F62>(t, o),
                    1 => Context::new::<F64>(t, o),
                    _ => Context::new::<F128>(t, o),
                };
                check(ch, ctx, "Context", &c);
            }
        },
    }
}

fn gen_boundary_options(ch: &mut Chooser) -> ProofOptions {
    ProofOptions::new(
        [1usize, 255, 2, 254, 32][ch.index("o.q", 5)],
        [2usize, 128, 4, 64][ch.index("o.b", 4)],
        [0u32, 32, 1, 31, 20][ch.index("o.g", 5)],
        [FieldExtension::None, FieldExtension::Quadratic, FieldExtension::Cubic][ch.index("o.e", 3)],
        [2usize, 16, 4, 8][ch.index("o.f", 4)],
        [0usize, 255, 1, 127, 7][ch.index("o.r", 5)],
    )
}

fn gen_trace_info(ch: &mut Chooser) -> TraceInfo {
    let aux = [0usize, 1, 2, 100, 254][ch.index("t.aux", 5)];
    let main = [1usize, 255 - aux, 2, 8, 9][ch.index("t.main", 5)].min(255 - aux).max(1);
    let rands = if aux == 0 { 0 } else { [0usize, 1, 255, 12][ch.index("t.rands", 4)] };
    let log_len = [3u32, 31, 4, 10, 20, 30][ch.index("t.len", 6)];
    let meta_len = [0usize, 1, 65535, 65534, 300][ch.index("t.meta", 5)];
    let meta = rand_bytes(ch, meta_len);
    TraceInfo::new_multi_segment(main, aux, rands, 1usize << log_len, meta)
}

/// Metadata one byte and more beyond what the 16-bit length prefix can carry: the constructors
/// refuse it (a documented panic). Should one of them accept it, the value is a value of the type
/// and has to survive the round trip like any other.
fn gen_oversized_trace_info(ch: &mut Chooser, ctx: &mut Ctx) -> Option<TraceInfo> {
    let meta_len = [65536usize, 65537, 70000, 131075][ch.index("t.bigmeta", 4)];
    let meta = rand_bytes(ch, meta_len);
    let which = ch.index("t.ctor", 3);
    let r = guard(move || match which {
        0 => TraceInfo::new_multi_segment(3, 2, 1, 16, meta),
        1 => TraceInfo::new_multi_segment(8, 0, 0, 8, meta),
        _ => TraceInfo::with_meta(4, 32, meta),
    });
    match r {
        Ok(t) => {
            ctx.probe("constructor_accepted_metadata_beyond_65535_bytes");
            Some(t)
        },
        Err(_) => {
            ctx.probe("constructor_refused_metadata_beyond_65535_bytes");
            None
        },
    }
}

struct ProofJob<'a> {
    ch: &'a mut Chooser,
    ctx: &'a mut Ctx,
    /// an algebraic hasher: proofs are an order of magnitude slower, keep them small
    rescue: bool,
}

impl<'a> Job for ProofJob<'a> {
    type Out = ();
    fn run<B: SimField, H: ElementHasher<BaseField = B> + Send + Sync + 'static>(self) {
        let (ch, ctx) = (self.ch, self.ctx);
        let lim = if self.rescue {
            GenLimits { max_log_len: 5, max_width: 12, max_grinding: 0, allow_aux: true }
        } else {
            GenLimits { max_log_len: 6, max_width: 255, max_grinding: 1, allow_aux: true }
        };
        let mut case = gen_case::<B>(ch, &lim);
        // push the boundary members of the proof components
        match ch.weighted("proof.extreme", &[3, 2, 2, 2]) {
            1 => {
                let o = &case.options;
                let q = (case.shape.len() * o.blowup_factor() - 1).min(255);
                case.options = ProofOptions::new(q, o.blowup_factor(), 0, o.field_extension(), o.to_fri_options().folding_factor(), o.to_fri_options().remainder_max_degree());
            },
            2 => {
                // maximal remainder: no folding at all if the trace is short enough
                let o = &case.options;
                let r = [255usize, 127, 63][ch.index("proof.rmax", 3)];
                if fri_well_formed(case.shape.len(), o.blowup_factor(), 2, r) {
                    case.options = ProofOptions::new(o.num_queries(), o.blowup_factor(), 0, o.field_extension(), 2, r);
                }
            },
            _ => {},
        }
        let (out, _) = prove::<B, H, DefaultRandomCoin<H>>(&case, &case.rows, None);
        let ProveOutcome::Ok(proof) = out else {
            ctx.skipped = Some("baseline_failed");
            return;
        };
        let proof: Proof = *proof;
        match ch.index("proof.part", 6) {
            0 => {
                let mut v = proof;
                // the optional GKR proof at its boundary members (every value of the field is a
                // value of the type, whatever the prover put there)
                match ch.weighted("proof.gkr", &[3, 2, 2, 1, 1]) {
                    0 => {},
                    1 => v.gkr_proof = Some(vec![]),
                    2 => v.gkr_proof = None,
                    3 => v.gkr_proof = Some(vec![0xA5; [1usize, 127, 128, 129][ch.index("proof.gkrlen", 4)]]),
                    _ => v.gkr_proof = Some((0..300 + ch.index("proof.gkrlen", 200)).map(|i| i as u8).collect()),
                }
                check(ch, ctx, "Proof", &v)
            },
            1 => check::<Commitments>(ch, ctx, "Commitments", &proof.commitments),
            2 => {
                let k = ch.index("proof.seg", proof.trace_queries.len());
                check::<Queries>(ch, ctx, "Queries(trace)", &proof.trace_queries[k])
            },
            3 => check::<Queries>(ch, ctx, "Queries(constraints)", &proof.constraint_queries),
            4 => check::<OodFrame>(ch, ctx, "OodFrame", &proof.ood_frame),
            _ => check::<FriProof>(ch, ctx, "FriProof", &proof.fri_proof),
        }
    }
}

// BATCH MERKLE OPENINGS: serialize_nodes / deserialize
// ------------------------------------------------------------------------------------------------
// The node vectors of a batch opening have their own codec (the claimed leaves and the depth
// travel separately): decode(encode(opening)) must be the opening, on the in-memory reader and on
// the streaming reader over any chunking, for every hasher (digests of 24, 31 and 32 bytes).

struct OpeningJob<'a> {
    ch: &'a mut Chooser,
    ctx: &'a mut Ctx,
    name: &'static str,
}

impl<'a> Job for OpeningJob<'a> {
    type Out = ();
    fn run<B: SimField, H: ElementHasher<BaseField = B> + Send + Sync + 'static>(self) {
        let (ch, ctx) = (self.ch, self.ctx);
        let depth = 1 + ch.index("open.depth", 9) as u32;
        let n = 1usize << depth;
        let salt = ch.u64("open.salt");
        let leaves: Vec<H::Digest> = (0..n).map(|i| H::hash(&[(i as u64 ^ salt).to_le_bytes(), salt.rotate_left(13).to_le_bytes()].concat())).collect();
        let tree = crypto::MerkleTree::<H>::new(leaves).expect("harness: tree");
        let k = (ch.biased("open.k", 1, 255.min(n) as u64, &[1, 2, 3, 8, 255])) as usize;
        let mut positions: Vec<usize> = vec![];
        while positions.len() < k {
            let p = ch.index("open.pos", n);
            if !positions.contains(&p) {
                positions.push(p);
            }
        }
        let bp = tree.prove_batch(&positions).expect("harness: prove_batch");
        let bytes = bp.serialize_nodes();
        ctx.probe(self.name);
        ctx.event_with("opening", simcore::rng::fnv1a(&bytes), || format!("{}: depth {depth}, {k} positions, {} bytes of nodes", self.name, bytes.len()));
        let same = |a: &crypto::BatchMerkleProof<H>| a.leaves == bp.leaves && a.nodes == bp.nodes && a.depth == bp.depth;
        // in-memory reader
        let mut r = SliceReader::new(&bytes);
        match guard(|| crypto::BatchMerkleProof::<H>::deserialize(&mut r, bp.leaves.clone(), depth as u8)) {
            Ok(Ok(b)) if same(&b) && !r.has_more_bytes() => {},
            Ok(Ok(_)) => ctx.violation(format!("C12/BatchMerkleProof/{}/SliceReader/value-differs", self.name), format!("depth {depth}, positions {:?}", &positions[..positions.len().min(8)])),
            Ok(Err(e)) => ctx.violation(
                format!("C12/BatchMerkleProof/{}/SliceReader/decode-error {}", self.name, crate::pipe::variant_name(&format!("{:?}", e))),
                format!("the node vectors written by serialize_nodes cannot be read back: {e}; depth {depth}, {k} positions"),
            ),
            Err(p) => ctx.violation(format!("C12/BatchMerkleProof/{}/SliceReader/panic {}", self.name, p.signature()), format!("{}:{} {}", p.file, p.line, p.msg)),
        }
        // streaming reader over a chunking source
        let style = CHUNK_STYLES[ch.weighted("src.style", &[1, 2, 2, 3, 3, 3])];
        let kk = ch.biased("src.k", 1, 300, &[2, 3, 7, 8, 9, 255, 256]) as usize;
        let stats = ReadStats::default();
        let res = {
            let world = RefCell::new(World { ch, ctx });
            let mut src = SimRead::new(&world, &bytes, style, kk, ReadFaults::default(), &stats);
            let mut ad = ReadAdapter::new(&mut src);
            stats.begin_op(64);
            guard(|| {
                let b = crypto::BatchMerkleProof::<H>::deserialize(&mut ad, bp.leaves.clone(), depth as u8);
                (b, ad.has_more_bytes())
            })
        };
        match res {
            Ok((Ok(b), false)) if same(&b) => {},
            Ok((Ok(_), _)) => ctx.violation(format!("C12/BatchMerkleProof/{}/ReadAdapter/value-differs", self.name), format!("depth {depth}, {k} positions")),
            Ok((Err(e), _)) => ctx.violation(
                format!("C12/BatchMerkleProof/{}/ReadAdapter/decode-error {}", self.name, crate::pipe::variant_name(&format!("{:?}", e))),
                format!("the node vectors written by serialize_nodes cannot be read back through ReadAdapter: {e}; depth {depth}, {k} positions"),
            ),
            Err(p) => ctx.violation(format!("C12/BatchMerkleProof/{}/ReadAdapter/panic {}", self.name, p.signature()), format!("{}:{} {}", p.file, p.line, p.msg)),
        }
    }
}

fn openings(ch: &mut Chooser, ctx: &mut Ctx) {
    // one configuration per hasher
    let (ci, name) = [(0usize, "blake3_256"), (3, "blake3_192"), (6, "sha3_256"), (9, "rp62_248"), (10, "rp64_256"), (11, "rp_jive64_256")][ch.index("open.hasher", 6)];
    dispatch(CONFIGS[ci], OpeningJob { ch, ctx, name });
}


// OUT-OF-DOMAIN FRAMES AT THEIR BOUNDARY MEMBERS
// ------------------------------------------------------------------------------------------------
// The frames of the protocol-sim proofs are small (short traces). The type also has members with
// 255 columns, a Lagrange kernel frame of log2(trace length) + 1 = up to 32 evaluations (more than
// 255 bytes from 8 evaluations of a 32-byte element on) and up to 255 constraint evaluations.

fn ood_frame_of<E: FieldElement, H: ElementHasher<BaseField = E::BaseField>>(ch: &mut Chooser, ctx: &mut Ctx, name: &'static str) {
    let width = [1usize, 2, 8, 127, 128, 255][ch.index("ood.width", 6)];
    let main_w = 1 + ch.index("ood.mainw", width);
    let lag_rows = [0usize, 0, 1, 4, 8, 9, 11, 16, 17, 21, 32][ch.index("ood.lagrange", 11)];
    let evals_n = [1usize, 2, 8, 255][ch.index("ood.evals", 4)];
    let salt = ch.u64("ood.salt");
    let mut r = simcore::rng::Xoshiro::from_u64(salt);
    let mut el = |r: &mut simcore::rng::Xoshiro| -> E {
        match r.below(8) {
            0 => E::ZERO,
            1 => E::ZERO - E::ONE,
            _ => crate::c05::rand_elem::<E>(r),
        }
    };
    let cur: Vec<E> = (0..width).map(|_| el(&mut r)).collect();
    let next: Vec<E> = (0..width).map(|_| el(&mut r)).collect();
    let lag = if lag_rows == 0 { None } else { Some(air::LagrangeKernelEvaluationFrame::new((0..lag_rows).map(|_| el(&mut r)).collect())) };
    let evals: Vec<E> = (0..evals_n).map(|_| el(&mut r)).collect();
    let built = guard(|| {
        let mut f = OodFrame::default();
        f.set_trace_states::<E, H>(&air::proof::TraceOodFrame::new(cur.clone(), next.clone(), main_w, lag.clone()));
        f.set_constraint_evaluations(&evals);
        f
    });
    let frame = match built {
        Ok(f) => f,
        Err(p) => {
            ctx.violation(format!("C12/OodFrame<{name}>/construction-panic {}", p.signature()), format!("{width} columns, {lag_rows} Lagrange evaluations, {evals_n} constraint evaluations: {}:{} {}", p.file, p.line, p.msg));
            return;
        },
    };
    if lag_rows > 0 && 1 + lag_rows * E::ELEMENT_BYTES > 255 {
        ctx.probe("lagrange_kernel_frame_above_255_bytes");
    }
    check::<OodFrame>(ch, ctx, "OodFrame(boundary members)", &frame);
    // and the frame must give back what was put in
    // (the Lagrange kernel column counts as an auxiliary column whose evaluations travel apart)
    let aux_w = width - main_w + (lag_rows > 0) as usize;
    match guard(|| frame.clone().parse::<E>(main_w, aux_w, evals_n)) {
        Ok(Ok((t, e))) => {
            let same = t.current_row() == &cur[..] && t.next_row() == &next[..] && e == evals && t.lagrange_kernel_frame().map(|l| l.inner().to_vec()) == lag.as_ref().map(|l| l.inner().to_vec());
            if !same {
                ctx.violation(format!("C12/OodFrame<{name}>/parse-differs"), format!("{width} columns ({main_w} main), {lag_rows} Lagrange evaluations, {evals_n} constraint evaluations"));
            }
        },
        Ok(Err(e)) => ctx.violation(
            format!("C12/OodFrame<{name}>/parse-error {}", crate::pipe::variant_name(&format!("{:?}", e))),
            format!("the frame built from {width} columns ({main_w} main), {lag_rows} Lagrange evaluations, {evals_n} constraint evaluations does not parse: {e}"),
        ),
        Err(p) => ctx.violation(format!("C12/OodFrame<{name}>/parse-panic {}", p.signature()), format!("{}:{} {}", p.file, p.line, p.msg)),
    }
}

fn ood_frames(ch: &mut Chooser, ctx: &mut Ctx) {
    type F62 = f62::BaseElement;
    type F64 = f64::BaseElement;
    type F128 = f128::BaseElement;
    match ch.index("ood.type", 8) {
        0 => ood_frame_of::<F62, Blake3_256<F62>>(ch, ctx, "f62"),
        1 => ood_frame_of::<QuadExtension<F62>, Blake3_192<F62>>(ch, ctx, "quad<f62>"),
        2 => ood_frame_of::<CubeExtension<F62>, Rp62_248>(ch, ctx, "cube<f62>"),
        3 => ood_frame_of::<F64, Rp64_256>(ch, ctx, "f64"),
        4 => ood_frame_of::<QuadExtension<F64>, Blake3_256<F64>>(ch, ctx, "quad<f64>"),
        5 => ood_frame_of::<CubeExtension<F64>, RpJive64_256>(ch, ctx, "cube<f64>"),
        6 => ood_frame_of::<F128, Sha3_256<F128>>(ch, ctx, "f128"),
        _ => ood_frame_of::<QuadExtension<F128>, Blake3_256<F128>>(ch, ctx, "quad<f128>"),
    }
}

fn scenario(_info: &RunInfo, ch: &mut Chooser, ctx: &mut Ctx) {
    match ch.weighted("family", &[5, 4, 2, 1, 1]) {
        0 => primitives(ch, ctx),
        1 => algebra(ch, ctx),
        3 => openings(ch, ctx),
        4 => ood_frames(ch, ctx),
        _ => {
            // every (field, hasher) pair: digest widths of 24, 31 and 32 bytes on the wire
            let cfg = gen_cfg(ch, true);
            dispatch(cfg, ProofJob { ch, ctx, rescue: is_rescue(cfg) });
        },
    }
}

pub fn spec() -> CheckSpec {
    let arms: Vec<Box<dyn Arm>> = vec![Box::new(FnArm { name: "round-trip", quick: 120_000, thorough: 3_000_000, f: scenario })];
    let _ = Tier::Quick;
    CheckSpec {
        id: "C12",
        level: "exploration",
        build: "serial",
        rule: "one run = one value of one serializable type (integers, the variable-length size encoding at 2^(7k)-1 / 2^(7k) / 2^(7k)+1, 127/128/129, 2^56, u64::MAX; Option, tuples, arrays, String incl. multi-byte characters, Vec / BTreeMap / BTreeSet at lengths 0, 1, 127..129, 255..257, nestings; elements of the three base fields and their quadratic / cubic extensions at 0, 1, p-1 and random; byte and element digests of all six hashers; FieldExtension; ProofOptions at every boundary tuple; TraceInfo with 255 columns, auxiliary segments with 0..255 random elements, lengths 2^3..2^31, 0 / 1 / 65534 / 65535 metadata bytes; Context; the node vectors of batch Merkle openings (serialize_nodes / deserialize) for all six hashers, depth 1..9, 1..255 positions; out-of-domain frames built through the public API with 1..255 columns, a Lagrange kernel frame of 0..32 evaluations (above 255 bytes from 8 evaluations of a 32-byte element on) and 1..255 constraint evaluations, which must also parse back to what was put in; and Commitments, Queries, OodFrame, FriProof and whole Proofs produced by the protocol sim with every (field, hasher) pair incl. maximal query counts and remainders and the optional GKR proof absent / empty / 1 / 127..129 / 300..499 bytes) x a 0..8-byte foreign suffix x one chunking of the simulated byte source x one schedule of short / interrupted writes of the simulated sink. decode(encode(x)) == x and exactly the written bytes are consumed on SliceReader, std::io::Cursor and ReadAdapter; the sink receives to_bytes(x). Non-trivial = a non-maximal chunking or short write fired; distinct = distinct event-log digests.".into(),
        interleaving_measure: "distinct (value, suffix, source chunk boundaries, sink write boundaries) histories".into(),
        real: vec!["every Serializable / Deserializable impl listed in the rule", "SliceReader, Cursor impl, ReadAdapter, ByteWriter for std::io::Write"],
        stub: vec!["the byte source and the byte sink (SimRead / SimWrite)"],
        assumptions: vec!["value coverage is generator-driven workload; the simulator's own dimensions are the source chunking and the sink's write boundaries"],
        arms,
    }
}
