//! The nodes of the protocol sim: generate a case, run the prover node, run the verifier node,
//! push a proof through the byte transport.

use std::cell::RefCell;

use air::proof::Proof;
use air::ProofOptions;
use crypto::{ElementHasher, RandomCoin};
use prover::Prover;
use simcore::{guard, Chooser, Ctx, PanicInfo};
use utils::{ByteReader, Deserializable, ReadAdapter, Serializable};
use verifier::{verify, AcceptableOptions};

use crate::proto::*;
use crate::simio::{ChunkStyle, ReadFaults, ReadStats, SimRead, World, CHUNK_STYLES};

pub struct Case<B: SimField> {
    pub blowup: usize,
    pub shape: Shape,
    pub rows: Vec<Vec<B>>,
    pub inputs: SimInputs<B>,
    pub options: ProofOptions,
}

pub fn gen_case<B: SimField>(ch: &mut Chooser, lim: &GenLimits) -> Case<B> {
    let blowup = gen_blowup(ch);
    let shape = gen_shape(ch, lim, blowup);
    let rows = gen_rows::<B>(ch, &shape);
    let inputs = SimInputs::from_trace(&shape, &rows);
    let options = gen_options::<B>(ch, &shape, lim, blowup);
    Case { blowup, shape, rows, inputs, options }
}

pub fn variant_name(dbg: &str) -> String {
    let mut s = String::new();
    for c in dbg.chars() {
        if c.is_ascii_digit() || c == '"' {
            break;
        }
        s.push(c);
    }
    s.trim_end_matches(['(', ',', ' ', '{']).to_string()
}

#[derive(Debug)]
pub enum ProveOutcome {
    Ok(Box<Proof>),
    Err(String),
    Panic(PanicInfo),
}

pub fn prove<B, H, R>(
    case: &Case<B>,
    rows: &[Vec<B>],
    aux_fault: Option<AuxFault>,
) -> (ProveOutcome, ProverRecord)
where
    B: SimField,
    H: ElementHasher<BaseField = B> + Send + Sync,
    R: RandomCoin<BaseField = B, Hasher = H> + Send + Sync,
{
    let mut p = SimProver::<B, H, R>::new(case.options.clone(), case.inputs.clone());
    p.aux_fault = aux_fault;
    let trace = SimTrace::from_rows(&case.shape, rows);
    let out = match guard(|| p.prove(trace)) {
        Ok(Ok(proof)) => ProveOutcome::Ok(Box::new(proof)),
        Ok(Err(e)) => ProveOutcome::Err(variant_name(&format!("{:?}", e))),
        Err(pi) => ProveOutcome::Panic(pi),
    };
    let rec = p.record.replace(ProverRecord::default());
    (out, rec)
}

/// the prover node with a Byzantine commitment (see `Lie`)
pub fn prove_lying<B, H, R>(case: &Case<B>, lie: Lie) -> ProveOutcome
where
    B: SimField,
    H: ElementHasher<BaseField = B> + Send + Sync,
    R: RandomCoin<BaseField = B, Hasher = H> + Send + Sync,
{
    let mut p = SimProver::<B, H, R>::new(case.options.clone(), case.inputs.clone());
    p.lie = Some(lie);
    let trace = SimTrace::from_rows(&case.shape, &case.rows);
    match guard(|| p.prove(trace)) {
        Ok(Ok(proof)) => ProveOutcome::Ok(Box::new(proof)),
        Ok(Err(e)) => ProveOutcome::Err(variant_name(&format!("{:?}", e))),
        Err(pi) => ProveOutcome::Panic(pi),
    }
}

#[derive(Debug, Clone)]
pub enum VerifyOutcome {
    Accept,
    Reject(String),
    Panic(PanicInfo),
}

impl VerifyOutcome {
    pub fn accepted(&self) -> bool {
        matches!(self, VerifyOutcome::Accept)
    }
    pub fn short(&self) -> String {
        match self {
            VerifyOutcome::Accept => "accept".into(),
            VerifyOutcome::Reject(e) => format!("reject({e})"),
            VerifyOutcome::Panic(p) => format!("PANIC({})", p.signature()),
        }
    }
}

pub fn verify_with<B, H, R>(proof: Proof, inputs: SimInputs<B>, acc: &AcceptableOptions) -> VerifyOutcome
where
    B: SimField,
    H: ElementHasher<BaseField = B>,
    R: RandomCoin<BaseField = B, Hasher = H>,
{
    match guard(|| verify::<SimAir<B>, H, R>(proof, inputs, acc)) {
        Ok(Ok(())) => VerifyOutcome::Accept,
        Ok(Err(e)) => VerifyOutcome::Reject(variant_name(&format!("{:?}", e))),
        Err(p) => VerifyOutcome::Panic(p),
    }
}

pub fn min_sec0() -> AcceptableOptions {
    AcceptableOptions::MinConjecturedSecurity(0)
}

/// As `parse_streamed`, but the simulated source may also fail: Interrupted, WouldBlock, Other,
/// UnexpectedEof errors and transient zero-length reads at taped instants (hostile deliveries only).
pub fn parse_streamed_faulty(
    ch: &mut Chooser,
    ctx: &mut Ctx,
    bytes: &[u8],
) -> Result<Result<Proof, utils::DeserializationError>, PanicInfo> {
    let style = CHUNK_STYLES[ch.weighted("xport.style", &[1, 2, 2, 3, 3, 3])];
    let k = ch.biased("xport.k", 1, 300, &[2, 3, 7, 8, 9, 255, 256]) as usize;
    let faults = ReadFaults { interrupted: true, would_block: true, other: true, unexpected_eof: true, transient_zero: true, budget: 1 + ch.index("xport.faults", 3) as u32 };
    let stats = ReadStats::default();
    let world = RefCell::new(World { ch, ctx });
    let mut src = SimRead::new(&world, bytes, style, k, faults, &stats);
    let mut adapter = ReadAdapter::new(&mut src);
    stats.begin_op(64);
    guard(|| {
        let r = Proof::read_from(&mut adapter);
        // what a caller does next: is there anything left? (the look-ahead calls refill through
        // a shared borrow of the source and may meet the next fault there)
        let _ = adapter.has_more_bytes();
        let _ = adapter.check_eor(1);
        let _ = adapter.peek_u8();
        r
    })
}

/// Parse a proof from bytes delivered through ReadAdapter over a chunking SimRead.
pub fn parse_streamed(
    ch: &mut Chooser,
    ctx: &mut Ctx,
    bytes: &[u8],
) -> Result<Result<Proof, utils::DeserializationError>, PanicInfo> {
    let style = CHUNK_STYLES[ch.weighted("xport.style", &[1, 2, 2, 3, 3, 3])];
    let k = ch.biased("xport.k", 1, 300, &[2, 3, 7, 8, 9, 255, 256]) as usize;
    if style != ChunkStyle::Full {
        ctx.fault("transport_chunking");
    }
    let stats = ReadStats::default();
    let world = RefCell::new(World { ch, ctx });
    let mut src = SimRead::new(&world, bytes, style, k, ReadFaults::default(), &stats);
    let mut adapter = ReadAdapter::new(&mut src);
    stats.begin_op(64);
    guard(|| Proof::read_from(&mut adapter))
}

pub fn proof_bytes(p: &Proof) -> Vec<u8> {
    p.to_bytes()
}
