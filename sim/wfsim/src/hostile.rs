//! Hostile transport: honest base proofs, delivery of damaged bytes to the verifier node, and
//! the semantic decode that tells whether a mutation changed the proof's content.

use std::collections::BTreeMap;
use std::sync::Mutex;

use air::proof::Proof;
use air::{FieldExtension, ProofOptions};
use crypto::{DefaultRandomCoin, ElementHasher, Hasher};
use math::fields::{CubeExtension, QuadExtension};
use math::FieldElement;
use simcore::meter::{metered, Usage};
use simcore::{guard, Chooser, Ctx, PanicInfo};
use utils::{ByteReader, Deserializable, Serializable, SliceReader};
use verifier::AcceptableOptions;

use crate::dispatch::*;
use crate::pipe::*;
use crate::proto::*;
use crate::wire::{self, Layout};

#[derive(Debug, Clone)]
pub enum ParseRes {
    Ok,
    Err(String),
    Panic(PanicInfo),
}

#[derive(Debug, Clone)]
pub struct Delivered {
    pub parse: ParseRes,
    pub verify: Option<VerifyOutcome>,
    /// parsed proof is structurally identical to the base proof
    pub same_struct: bool,
    /// decoded content equals the base's (None when it does not decode)
    pub same_content: Option<bool>,
    /// the decoded content differs from the base's in the proof-of-work nonce only
    pub only_nonce_differs: bool,
    pub usage: Usage,
}

#[derive(Clone, Copy, Debug, PartialEq, Eq)]
pub enum Inputs {
    Matching,
    Perturbed,
}

pub trait Base: Sync + Send {
    fn name(&self) -> String;
    fn bytes(&self) -> &[u8];
    fn layout(&self) -> &Layout;
    fn honest_usage(&self) -> Usage;
    /// hand `data` to the verifier node: parse (directly or through a chunked stream), then verify
    fn deliver(&self, data: &[u8], streamed: bool, inputs: Inputs, policy: usize, ch: &mut Chooser, ctx: &mut Ctx) -> Delivered;
    fn num_queries(&self) -> usize;
}

struct TypedBase<B: SimField, H: ElementHasher<BaseField = B>> {
    cfg: Cfg,
    case: Case<B>,
    proof: Proof,
    bytes: Vec<u8>,
    layout: Layout,
    fingerprint: Vec<u8>,
    honest: Usage,
    _h: std::marker::PhantomData<H>,
}

/// canonical re-encoding of the decoded content of a proof (FRI partition count excluded)
fn fingerprint<B: SimField, H: ElementHasher<BaseField = B>>(p: &Proof) -> Option<Vec<u8>> {
    fn digests<H: Hasher>(bytes: &[u8], out: &mut Vec<u8>) -> Option<()> {
        let mut r = SliceReader::new(bytes);
        while r.has_more_bytes() {
            let d = H::Digest::read_from(&mut r).ok()?;
            d.write_into(out);
        }
        Some(())
    }
    // Elements count as they were SENT: the decoders refuse every non-canonical encoding, so on a
    // correct tree the bytes and the residues determine each other; should a decoder start to
    // reduce (accept value + M), the two byte strings are different content - the property only
    // exempts alternative encodings of digests.
    fn elems<E: FieldElement>(bytes: &[u8], out: &mut Vec<u8>) -> Option<()> {
        let mut r = SliceReader::new(bytes);
        while r.has_more_bytes() {
            let _ = E::read_from(&mut r).ok()?;
        }
        out.extend_from_slice(bytes);
        Some(())
    }
    fn paths<H: Hasher>(bytes: &[u8], out: &mut Vec<u8>) -> Option<()> {
        let mut r = SliceReader::new(bytes);
        let nv = r.read_u8().ok()?;
        out.push(nv);
        for _ in 0..nv {
            let nd = r.read_u8().ok()?;
            out.push(nd);
            for _ in 0..nd {
                H::Digest::read_from(&mut r).ok()?.write_into(out);
            }
        }
        if r.has_more_bytes() {
            return None;
        }
        Some(())
    }
    fn queries<H: Hasher, E: FieldElement>(qbytes: &[u8], out: &mut Vec<u8>) -> Option<()> {
        // Queries / FriProofLayer wire form: u32 len, values, u32 len, paths
        let mut r = SliceReader::new(qbytes);
        let vl = r.read_u32().ok()? as usize;
        let v = r.read_slice(vl).ok()?.to_vec();
        let pl = r.read_u32().ok()? as usize;
        let pb = r.read_slice(pl).ok()?.to_vec();
        out.extend_from_slice(&(vl as u32).to_le_bytes());
        elems::<E>(&v, out)?;
        out.push(0xAA);
        paths::<H>(&pb, out)?;
        Some(())
    }
    fn inner<B: SimField, H: ElementHasher<BaseField = B>, E: FieldElement<BaseField = B>>(p: &Proof) -> Option<Vec<u8>> {
        let mut out = vec![];
        p.context.write_into(&mut out);
        out.push(p.num_unique_queries);
        let cb = p.commitments.to_bytes();
        digests::<H>(&cb[2..], &mut out)?;
        for (i, q) in p.trace_queries.iter().enumerate() {
            out.push(0xB0 + i as u8);
            if i == 0 {
                queries::<H, B>(&q.to_bytes(), &mut out)?;
            } else {
                queries::<H, E>(&q.to_bytes(), &mut out)?;
            }
        }
        out.push(0xC0);
        queries::<H, E>(&p.constraint_queries.to_bytes(), &mut out)?;
        // ood frame: three u16-prefixed blobs
        let ob = p.ood_frame.to_bytes();
        let mut r = SliceReader::new(&ob);
        let l1 = r.read_u16().ok()? as usize;
        let b1 = r.read_slice(l1).ok()?.to_vec();
        let l2 = r.read_u16().ok()? as usize;
        let b2 = r.read_slice(l2).ok()?.to_vec();
        let l3 = r.read_u16().ok()? as usize;
        let b3 = r.read_slice(l3).ok()?.to_vec();
        out.push(*b1.first()?);
        elems::<E>(&b1[1..], &mut out)?;
        out.push(0xD1);
        if !b2.is_empty() {
            out.push(b2[0]);
            elems::<E>(&b2[1..], &mut out)?;
        }
        out.push(0xD2);
        elems::<E>(&b3, &mut out)?;
        // fri proof: u8 layers, layers, u16 remainder, u8 partitions
        let fb = p.fri_proof.to_bytes();
        let mut r = SliceReader::new(&fb);
        let nl = r.read_u8().ok()?;
        out.push(nl);
        for _ in 0..nl {
            let vl = r.read_u32().ok()? as usize;
            let v = r.read_slice(vl).ok()?.to_vec();
            let pl = r.read_u32().ok()? as usize;
            let pb = r.read_slice(pl).ok()?.to_vec();
            out.extend_from_slice(&(vl as u32).to_le_bytes());
            elems::<E>(&v, &mut out)?;
            out.push(0xE1);
            paths::<H>(&pb, &mut out)?;
        }
        let rl = r.read_u16().ok()? as usize;
        let rb = r.read_slice(rl).ok()?.to_vec();
        out.push(0xE2);
        elems::<E>(&rb, &mut out)?;
        // num_partitions: layout-only metadata, excluded on purpose
        p.gkr_proof.write_into(&mut out);
        // the nonce goes last (8 bytes) so that "differs in the nonce only" can be told apart
        out.extend_from_slice(&p.pow_nonce.to_le_bytes());
        Some(out)
    }
    match p.options().field_extension() {
        FieldExtension::None => inner::<B, H, B>(p),
        FieldExtension::Quadratic => {
            if !QuadExtension::<B>::is_supported() {
                return None;
            }
            inner::<B, H, QuadExtension<B>>(p)
        },
        FieldExtension::Cubic => {
            if !CubeExtension::<B>::is_supported() {
                return None;
            }
            inner::<B, H, CubeExtension<B>>(p)
        },
    }
}

impl<B: SimField, H: ElementHasher<BaseField = B> + Send + Sync + 'static> Base for TypedBase<B, H> {
    fn name(&self) -> String {
        format!("{:?}/{:?}/{:?} {}x{} q{} b{} f{} r{}{}", self.cfg.0, self.cfg.1, self.case.options.field_extension(), self.case.shape.width, self.case.shape.len(),
            self.case.options.num_queries(), self.case.options.blowup_factor(), self.case.options.to_fri_options().folding_factor(), self.case.options.to_fri_options().remainder_max_degree(),
            if self.case.shape.aux.is_some() { " aux" } else { "" })
    }
    fn bytes(&self) -> &[u8] {
        &self.bytes
    }
    fn layout(&self) -> &Layout {
        &self.layout
    }
    fn honest_usage(&self) -> Usage {
        self.honest
    }
    fn num_queries(&self) -> usize {
        self.case.options.num_queries()
    }

    fn deliver(&self, data: &[u8], streamed: bool, inputs: Inputs, policy: usize, ch: &mut Chooser, ctx: &mut Ctx) -> Delivered {
        let (parsed, u1) = if streamed && ch.chance("deliver.cursor?", 1, 4) {
            // third reader: std::io::Cursor, positioned after a header of k foreign bytes, or -
            // as after skipping a header whose length was taken from the input - PAST the end
            let k = ch.index("cursor.header", 40);
            let past_end = ch.chance("cursor.past_end?", 1, 3);
            let mut buf: Vec<u8> = (0..k).map(|i| (i as u8).wrapping_mul(37)).collect();
            buf.extend_from_slice(data);
            let pos = if past_end { buf.len() as u64 + 1 + ch.pick("cursor.beyond", 1000) } else { k as u64 };
            ctx.fault(if past_end { "cursor_positioned_past_the_end" } else { "cursor_positioned_after_a_header" });
            let r = metered(|| {
                guard(|| {
                    let mut cur = std::io::Cursor::new(&buf[..]);
                    cur.set_position(pos);
                    Proof::read_from(&mut cur)
                })
            });
            if past_end {
                if let (Ok(Ok(_)), _) = &r {
                    ctx.violation("C06/cursor-past-the-end-parses", format!("a proof was decoded from a cursor positioned {} bytes past the end of its {} bytes", pos - buf.len() as u64, buf.len()));
                }
            }
            r
        } else if streamed && ch.chance("deliver.io_faults?", 1, 3) {
            // the source itself fails while the proof is being read
            let r = metered(|| parse_streamed_faulty(ch, ctx, data));
            if let (Ok(Ok(p)), _) = &r {
                // an I/O fault may make the parse fail; it must never yield ANOTHER proof than
                // the bytes encode (counted, not asserted under C06: the statement is C13's)
                match guard(|| Proof::from_bytes(data)) {
                    Ok(Ok(q)) if q == *p => ctx.probe("streamed_parse_survived_io_faults_unchanged"),
                    _ => ctx.probe("streamed_parse_differs_after_io_fault"),
                }
            }
            r
        } else if streamed {
            metered(|| parse_streamed(ch, ctx, data))
        } else {
            metered(|| guard(|| Proof::from_bytes(data)))
        };
        let proof = match parsed {
            Ok(Ok(p)) => p,
            Ok(Err(e)) => {
                return Delivered { parse: ParseRes::Err(variant_name(&format!("{:?}", e))), verify: None, same_struct: false, same_content: None, only_nonce_differs: false, usage: u1 }
            },
            Err(p) => return Delivered { parse: ParseRes::Panic(p), verify: None, same_struct: false, same_content: None, only_nonce_differs: false, usage: u1 },
        };
        let same_struct = proof == self.proof;
        // (re-encoding a hostile proof may hit writer-side assertions: treat that as "does not decode")
        let fp = if same_struct { None } else { guard(|| fingerprint::<B, H>(&proof)).ok().flatten() };
        let same_content = if same_struct { Some(true) } else { fp.as_ref().map(|f| *f == self.fingerprint) };
        let only_nonce_differs = match &fp {
            Some(f) => f.len() == self.fingerprint.len() && f.len() >= 8 && f[..f.len() - 8] == self.fingerprint[..f.len() - 8] && f != &self.fingerprint,
            None => false,
        };
        let mut ins = self.case.inputs.clone();
        if inputs == Inputs::Perturbed {
            ins.values[0][0] += B::ONE;
        }
        let policies = [
            AcceptableOptions::MinConjecturedSecurity(0),
            AcceptableOptions::MinProvenSecurity(0),
            AcceptableOptions::OptionSet(vec![self.case.options.clone()]),
        ];
        let nonce_pair = if only_nonce_differs { Some((self.proof.pow_nonce, proof.pow_nonce)) } else { None };
        let modified = if only_nonce_differs { Some(proof.clone()) } else { None };
        let (v, u2) = metered(|| verify_with::<B, H, DefaultRandomCoin<H>>(proof, ins, &policies[policy % 3]));
        // A proof that differs from the accepted original in the nonce only and is accepted: either
        // the other nonce happens to meet the proof-of-work bound and to select the same set of
        // positions (another correct proof, see DESIGN 6.3), or the coin does not tell the two
        // nonces apart at all. The second is decided on the real coin in the state in which the
        // verifier asks for the positions: 64 integers below 2^32 under each nonce.
        let mut only_nonce_differs = only_nonce_differs;
        if let (Some((n0, n1)), true) = (nonce_pair, v.accepted()) {
            crate::coin::set_alias_probe(n1);
            crate::coin::clear_log();
            let _ = verify_with::<B, H, crate::coin::RecordingCoin<H>>(self.proof.clone(), self.case.inputs.clone(), &min_sec0());
            crate::coin::clear_log();
            if crate::coin::take_alias_probe() == Some(true) {
                ctx.event_with("alias", n0 ^ n1, || format!("the coin gives identical outputs for the nonces {n0} and {n1}"));
                only_nonce_differs = false; // not "another valid nonce": the two are not told apart
            }
            // ... or the verifier does not consume the proof's nonce at all: the positions must
            // have been asked for under the nonce the MODIFIED proof carries
            if let Some(m) = modified {
                crate::coin::clear_log();
                let _ = verify_with::<B, H, crate::coin::RecordingCoin<H>>(m, self.case.inputs.clone(), &min_sec0());
                let used: Vec<u64> = crate::coin::take_log()
                    .iter()
                    .filter_map(|op| if let crate::coin::CoinOp::Integers { nonce, .. } = op { Some(*nonce) } else { None })
                    .collect();
                if !used.is_empty() && !used.contains(&n1) {
                    ctx.event_with("nonce-unused", n1, || format!("the modified proof carries nonce {n1}, the verifier drew the positions under {:?}", used));
                    only_nonce_differs = false;
                }
            }
        }
        Delivered {
            parse: ParseRes::Ok,
            verify: Some(v),
            same_struct,
            same_content,
            only_nonce_differs,
            usage: Usage { max_request: u1.max_request.max(u2.max_request), total: u1.total + u2.total },
        }
    }
}

struct BuildJob<'a> {
    ch: &'a mut Chooser,
    cfg: Cfg,
    ext: FieldExtension,
    flavour: usize,
    /// forced (log2 trace length, blowup, folding factor, remainder max degree, queries)
    force: Option<(u32, usize, usize, usize, usize)>,
    /// replace the generated computation by "every column keeps its value" over a constant trace:
    /// a deliberately DEGENERATE base (low-degree everything, remainder with zero upper half),
    /// only for arms whose faults are refused on such proofs too
    constant: bool,
}

impl<'a> Job for BuildJob<'a> {
    type Out = Option<Box<dyn Base>>;
    fn run<B: SimField, H: ElementHasher<BaseField = B> + Send + Sync + 'static>(self) -> Self::Out {
        if !ext_supported::<B>(self.ext) {
            return None;
        }
        for _attempt in 0..(if self.force.is_some() { 200 } else { 20 }) {
            let lim = GenLimits { max_log_len: self.force.map(|f| f.0.max(3)).unwrap_or(4), max_width: if self.flavour == 2 { 12 } else { 4 }, max_grinding: 0, allow_aux: self.flavour == 1 };
            let mut case = gen_case::<B>(self.ch, &lim);
            if self.constant {
                let w = case.shape.width.min(3);
                let mut shape = case.shape.clone();
                shape.width = w;
                if let Some((ll, ..)) = self.force {
                    shape.log_len = ll;
                }
                shape.rules = (0..w).map(|c| Rule::Const { col: c }).collect();
                shape.periodic = vec![];
                shape.exemptions = 1;
                shape.aux = None;
                shape.assertions = vec![AssertSpec { kind: AssertKind::Single, col: 0, first: 0, stride: 0, count: 1 }];
                let row: Vec<B> = (0..w).map(|c| felt::<B>(7 + 1000 * c as u64 + self.ch.pick("const.value", 1 << 20))).collect();
                case.rows = vec![row; shape.len()];
                case.inputs = SimInputs::from_trace(&shape, &case.rows);
                case.shape = shape;
            }
            if let Some((ll, fb, _, _, _)) = self.force {
                if case.shape.log_len != ll || case.shape.min_blowup() > fb {
                    continue;
                }
            }
            if (self.flavour == 1) != case.shape.aux.is_some() {
                continue;
            }
            // the wide-trace flavour always carries a few bytes of trace metadata
            if self.flavour == 2 && case.shape.meta.is_empty() {
                case.shape.meta = vec![0x4d, 0x45, 0x54, 0x41, 0x21];
            }
            // a base must not be degenerate: a (nearly) constant trace gives a proof whose
            // content does not depend on the challenges and whose Merkle leaves are all equal,
            // so that many different byte strings are *correct* proofs of the same statement
            let n = case.shape.len();
            let lively = case.shape.rules.iter().any(|r| {
                let c = r.col();
                let mut vals: Vec<_> = case.rows.iter().map(|row| to_u128(row[c])).collect();
                vals.sort_unstable();
                vals.dedup();
                vals.len() >= n / 2
            });
            if !lively && !self.constant {
                continue;
            }
            // small, fixed-size options so that enumeration stays affordable
            let o = &case.options;
            let q = [2usize, 3, 4, 6][self.ch.index("base.q", 4)].min(case.shape.len() * o.blowup_factor() - 1);
            // flavour 4: a single query - every commitment is opened at exactly one position
            let q = if self.flavour == 4 { 1 } else { q };
            let blow = o.blowup_factor().min(4).max(case.shape.min_blowup());
            let fo = o.to_fri_options();
            let (mut f, mut r) = (fo.folding_factor(), fo.remainder_max_degree().min(7));
            if !fri_well_formed(case.shape.len(), blow, f, r) {
                f = 2;
                r = 0;
            }
            let grind = if self.flavour == 3 { 3 } else { 0 };
            case.options = ProofOptions::new(q, blow, grind, self.ext, f, r);
            if let Some((_, fb, ff, fr, fq)) = self.force {
                if !fri_well_formed(case.shape.len(), fb, ff, fr) {
                    return None;
                }
                case.options = ProofOptions::new(fq.min(case.shape.len() * fb - 1), fb, 0, self.ext, ff, fr);
            }
            let (out, _) = prove::<B, H, DefaultRandomCoin<H>>(&case, &case.rows, None);
            let ProveOutcome::Ok(proof) = out else { continue };
            let proof = *proof;
            let (v, honest) = metered(|| verify_with::<B, H, DefaultRandomCoin<H>>(proof.clone(), case.inputs.clone(), &min_sec0()));
            if !v.accepted() {
                continue;
            }
            let bytes = proof.to_bytes();
            let dsz = <H::Digest as Serializable>::to_bytes(&H::hash(&[1u8])).len();
            let bsz = B::ELEMENT_BYTES;
            let esz = bsz * match self.ext {
                FieldExtension::None => 1,
                FieldExtension::Quadratic => 2,
                FieldExtension::Cubic => 3,
            };
            let layout = wire::layout(&bytes, dsz, esz, bsz);
            let fp = fingerprint::<B, H>(&proof)?;
            return Some(Box::new(TypedBase::<B, H> { cfg: self.cfg, case, proof, bytes, layout, fingerprint: fp, honest, _h: std::marker::PhantomData }));
        }
        None
    }
}

/// an honest proof of a freshly generated case (any config / extension / flavour), drawn from
/// the run's own tape: the AIR shape varies per run instead of being one of the ~30 bases
pub fn fresh_base(ch: &mut Chooser) -> Option<Box<dyn Base>> {
    let cfg = CONFIGS[ch.index("fresh.cfg", CONFIGS.len())];
    let ext = [FieldExtension::None, FieldExtension::Quadratic, FieldExtension::Cubic][ch.index("fresh.ext", 3)];
    let flavour = ch.weighted("fresh.flavour", &[3, 2, 1, 1]);
    dispatch(cfg, BuildJob { ch, cfg, ext, flavour, force: None, constant: false })
}

static BASES: Mutex<BTreeMap<u64, &'static [Box<dyn Base>]>> = Mutex::new(BTreeMap::new());

/// ~30 honest proofs across field x extension x hasher x option shapes, built once per process
/// and seed (a known-finding replay may ask for the bases of another seed than the batch's)
pub fn bases(seed: u64) -> &'static [Box<dyn Base>] {
    let mut cache = BASES.lock().unwrap_or_else(|e| e.into_inner());
    if let Some(b) = cache.get(&seed) {
        return b;
    }
    let mut out: Vec<Box<dyn Base>> = vec![];
    let exts = [FieldExtension::None, FieldExtension::Quadratic, FieldExtension::Cubic];
    let mut k = 0u64;
    for (ci, cfg) in CONFIGS.iter().enumerate() {
        for (ei, ext) in exts.iter().enumerate() {
            // every (field, hasher) pair with one extension each, rotating; plus extra
            // flavours (aux segment, wide trace, grinding) on the cheap hashers
            let flavours: &[usize] = if ci < 3 { &[0, 1, 2, 3] } else { &[0] };
            for &fl in flavours {
                if ci >= 3 && ei != ci % 3 {
                    continue;
                }
                if ci < 3 && fl != 0 && ei != (fl + ci) % 3 {
                    continue;
                }
                k += 1;
                let mut ch = Chooser::record(simcore::rng::stream(seed, "hostile-bases", k));
                if let Some(b) = dispatch(*cfg, BuildJob { ch: &mut ch, cfg: *cfg, ext: *ext, flavour: fl, force: None, constant: false }) {
                    out.push(b);
                }
            }
        }
    }
    // appended after the others so that their indexes (and the replays that name them) stay valid:
    // single-query proofs on the three cheap hashers
    for ci in 0..3usize {
        k += 1;
        let mut ch = Chooser::record(simcore::rng::stream(seed, "hostile-bases", k));
        if let Some(b) = dispatch(CONFIGS[ci], BuildJob { ch: &mut ch, cfg: CONFIGS[ci], ext: exts[ci % 3], flavour: 4, force: None, constant: false }) {
            out.push(b);
        }
    }
    // ... and two proofs whose LAST FRI layer is committed with a two-leaf tree (depth 1, the
    // smallest there is): LDE domain 32 folded by 4 twice, and 16 folded by 2 three times
    for (ci, force) in [(0usize, (4u32, 2usize, 4usize, 0usize, 3usize)), (1, (3, 2, 2, 0, 2))] {
        k += 1;
        let mut ch = Chooser::record(simcore::rng::stream(seed, "hostile-bases", k));
        if let Some(b) = dispatch(CONFIGS[ci], BuildJob { ch: &mut ch, cfg: CONFIGS[ci], ext: exts[0], flavour: 0, force: Some(force), constant: false }) {
            out.push(b);
        }
    }
    let leaked: &'static [Box<dyn Base>] = Box::leak(out.into_boxed_slice());
    cache.insert(seed, leaked);
    leaked
}

/// The option grid of the `options-cross` arms: (log2 trace length, blowup, folding, remainder
/// max degree); ill-formed FRI schedules have no honest proof and yield `None`.
pub const GRID_LOG_LEN: [u32; 3] = [3, 4, 5];
pub const GRID_BLOWUP: [usize; 3] = [2, 4, 8];
pub const GRID_FOLDING: [usize; 4] = [2, 4, 8, 16];
pub const GRID_RMAX: [usize; 4] = [0, 1, 3, 7];
pub const GRID_POINTS: usize = 3 * 3 * 4 * 4;

pub fn grid_point(i: usize) -> (u32, usize, usize, usize) {
    (GRID_LOG_LEN[i % 3], GRID_BLOWUP[i / 3 % 3], GRID_FOLDING[i / 9 % 4], GRID_RMAX[i / 36 % 4])
}

static GRID: simcore::Keyed<(u64, usize), Option<Box<dyn Base>>> = simcore::Keyed::new();

/// the honest proof of grid point `i` (tiny AIR, 2..4 queries, no grinding), built once per
/// process and seed; (field, hasher) and extension rotate with the index
pub fn grid_base(seed: u64, i: usize) -> Option<&'static dyn Base> {
    GRID.get_or_init((seed, i), || {
        let (ll, b, f, r) = grid_point(i);
        let cfg = CONFIGS[[0usize, 10, 3, 6][i % 4]];
        let exts = [FieldExtension::None, FieldExtension::Quadratic];
        let mut ch = Chooser::record(simcore::rng::stream(seed, "hostile-grid", i as u64));
        dispatch(cfg, BuildJob { ch: &mut ch, cfg, ext: exts[(i / 4) % 2], flavour: 0, force: Some((ll, b, f, r, 2 + i % 3)), constant: false })
    })
    .as_deref()
}

/// a freshly built DEGENERATE base: constant trace, remainder of at least two coefficients whose
/// upper part is zero (see `BuildJob::constant`)
pub fn constant_base(ch: &mut Chooser) -> Option<Box<dyn Base>> {
    let cfg = CONFIGS[ch.index("const.cfg", CONFIGS.len())];
    let ext = [FieldExtension::None, FieldExtension::Quadratic, FieldExtension::Cubic][ch.index("const.ext", 3)];
    let ll = 3 + ch.index("const.loglen", 4) as u32;
    let blowup = [2usize, 4, 8][ch.index("const.blowup", 3)];
    let folding = [2usize, 4, 8][ch.index("const.folding", 3)];
    let rmax = [1usize, 3, 7, 15, 31][ch.index("const.rmax", 5)];
    let q = 1 + ch.index("const.q", 6);
    dispatch(cfg, BuildJob { ch, cfg, ext, flavour: 0, force: Some((ll, blowup, folding, rmax, q)), constant: true })
}

pub fn describe_bases(seed: u64) -> Vec<String> {
    bases(seed).iter().map(|b| format!("{} ({} bytes, {} fields)", b.name(), b.bytes().len(), b.layout().fields.len())).collect()
}
