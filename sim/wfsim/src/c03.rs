//! C03 — proof integrity: any change of the decoded content of an accepted proof is rejected
//! (or fails to parse). Blind / structural faults come from the hostile transport; adaptive
//! man-in-the-middle substitutions use the verifier's own query positions.


use simcore::iso::{danger_zone, IsoArm};
use simcore::{Arm, CheckSpec, Chooser, Ctx, RunInfo, Tier};

use crate::c06::{enum_mutation, enum_sizes, EnumIndex, EnumKind};
use crate::hostile::*;
use crate::wire;

/// class suffix: which part of the proof was touched (field name without indices)
fn region(what: &str) -> String {
    // coordinated edits are named by their first words
    if let Some(rest) = what.strip_prefix("coordinated: ") {
        let words: Vec<&str> = rest.split_whitespace().take_while(|w| !w.chars().any(|c| c.is_ascii_digit() || c == '(')).take(3).collect();
        return format!("coordinated-{}", words.join("-").trim_end_matches(':'));
    }
    // descriptions mention "field <name>" or "component <name>"
    for key in ["field ", "component ", "components ", "blob after "] {
        if let Some(i) = what.find(key) {
            let rest = &what[i + key.len()..];
            let name: String = rest.chars().take_while(|c| !c.is_whitespace() && *c != ')').collect();
            let mut out = String::new();
            let mut in_idx = false;
            for c in name.chars() {
                match c {
                    '[' => {
                        in_idx = true;
                        out.push_str("[]");
                    },
                    ']' => in_idx = false,
                    _ if in_idx => {},
                    _ => out.push(c),
                }
            }
            if key == "blob after " && what.contains("zero bytes") {
                out.push_str("+zero-bytes");
            }
            return out;
        }
    }
    "unlocated".into()
}

pub fn judge(ctx: &mut Ctx, base: &dyn Base, what: &str, d: &Delivered, kind: &str) {
    let accepted = matches!(&d.verify, Some(v) if v.accepted());
    ctx.probe(match (&d.parse, accepted, d.same_content) {
        (ParseRes::Err(_), _, _) | (ParseRes::Panic(_), _, _) => "failed_to_parse",
        (_, false, _) => "rejected",
        (_, true, Some(true)) => "accepted_content_unchanged",
        _ => "ACCEPTED_CONTENT_CHANGED",
    });
    // A different nonce that satisfies the proof-of-work bound and leads to the same query
    // positions gives another CORRECT proof of the same statement (the prover's choice among
    // valid nonces is arbitrary - C14 says as much); on tiny domains with few queries a random
    // nonce does that with noticeable probability. Acceptance proves both conditions hold.
    if accepted && d.only_nonce_differs {
        ctx.probe("accepted_another_valid_nonce_same_positions");
        return;
    }
    if accepted && d.same_content != Some(true) {
        ctx.violation(
            format!("C03/{kind}/modified-proof-accepted {}", region(what)),
            format!(
                "the verifier accepted a proof whose decoded content differs from the accepted original: {what}; base [{}]; decoded content {}",
                base.name(),
                match d.same_content {
                    None => "does not decode with the harness' codec",
                    _ => "differs",
                }
            ),
        );
    }
}

struct EnumArm {
    kind: EnumKind,
    index: simcore::Keyed<(bool, u64), EnumIndex>,
    quick_bases: usize,
}

impl EnumArm {
    fn idx(&self, tier: Tier, seed: u64) -> &EnumIndex {
        self.index.get_or_init((tier == Tier::Quick, seed), || enum_sizes(self.kind, seed, if tier == Tier::Quick { self.quick_bases } else { usize::MAX }))
    }
}

impl Arm for EnumArm {
    fn name(&self) -> String {
        match self.kind {
            EnumKind::BitFlips => "all-bit-flips".into(),
            EnumKind::Truncations => "all-truncations".into(),
            EnumKind::Counts => "all-count-fields".into(),
            EnumKind::Coordinated => "all-coordinated-edits".into(),
        }
    }
    fn runs(&self, tier: Tier, seed: u64) -> u64 {
        self.idx(tier, seed).total()
    }
    fn exhaustive(&self) -> bool {
        true
    }
    fn prepare(&self, tier: Tier, seed: u64) {
        let _ = self.idx(tier, seed);
    }
    fn run(&self, info: &RunInfo, ch: &mut Chooser, ctx: &mut Ctx) {
        let Some((b, item)) = self.idx(info.tier, info.seed).locate(info.run) else { return };
        let base = &bases(info.seed)[b];
        let (what, data) = enum_mutation(self.kind, base.as_ref(), item);
        ctx.fault(match self.kind {
            EnumKind::BitFlips => "bit_flip",
            EnumKind::Truncations => "truncation",
            EnumKind::Counts => "count_field_boundary_value",
            EnumKind::Coordinated => "coordinated_self_consistent_edit",
        });
        danger_zone(ch);
        let d = base.deliver(&data, false, Inputs::Matching, 0, ch, ctx);
        ctx.event_with("deliver", info.run ^ simcore::rng::fnv1a(format!("{:?}{:?}{:?}", d.parse, d.verify.as_ref().map(|v| v.short()), d.same_content).as_bytes()), || {
            format!("base [{}]: {what} -> parse {:?}, verify {}, content unchanged: {:?}", base.name(), d.parse, d.verify.as_ref().map(|v| v.short()).unwrap_or("-".into()), d.same_content)
        });
        judge(ctx, base.as_ref(), &what, &d, "enumerated");
    }
}

struct SampledArm;

impl Arm for SampledArm {
    fn name(&self) -> String {
        "sampled-faults".into()
    }
    fn runs(&self, tier: Tier, _seed: u64) -> u64 {
        match tier {
            Tier::Quick => 80_000,
            Tier::Thorough => 2_000_000,
        }
    }
    fn prepare(&self, _tier: Tier, seed: u64) {
        let _ = bases(seed);
    }
    fn run(&self, info: &RunInfo, ch: &mut Chooser, ctx: &mut Ctx) {
        let bs = bases(info.seed);
        let base = &bs[ch.index("base", bs.len())];
        let other = bs[ch.index("base.other", bs.len())].bytes();
        let (what, data) = wire::sampled_fault(ch, base.bytes(), base.layout(), Some(other));
        ctx.fault("sampled_structural_or_blind_fault");
        let streamed = ch.chance("deliver.streamed?", 1, 5);
        let policy = ch.index("deliver.policy", 3);
        danger_zone(ch);
        let d = base.deliver(&data, streamed, Inputs::Matching, policy, ch, ctx);
        ctx.event_with("deliver", simcore::rng::fnv1a(format!("{what}{:?}{:?}{:?}", d.parse, d.verify.as_ref().map(|v| v.short()), d.same_content).as_bytes()), || {
            format!("base [{}]: {what} -> parse {:?}, verify {}, content unchanged: {:?}", base.name(), d.parse, d.verify.as_ref().map(|v| v.short()).unwrap_or("-".into()), d.same_content)
        });
        judge(ctx, base.as_ref(), &what, &d, "sampled");
    }
}

/// Proofs of constant traces have a remainder whose upper coefficients are zero: the same
/// polynomial can be written with fewer or with more coefficients. Each such re-encoding is a
/// different proof (its decoded content differs) and must be refused - the remainder commitment
/// binds the coefficient list that was sent, not only the polynomial. Only remainder-shape edits
/// are applied to these degenerate bases: every other part of such a proof is legitimately
/// independent of the challenges (see DESIGN 6.3).
struct RemainderFormsArm;

impl Arm for RemainderFormsArm {
    fn name(&self) -> String {
        "low-degree-remainder-forms".into()
    }
    fn runs(&self, tier: Tier, _seed: u64) -> u64 {
        match tier {
            Tier::Quick => 1_500,
            Tier::Thorough => 40_000,
        }
    }
    fn run(&self, _info: &RunInfo, ch: &mut Chooser, ctx: &mut Ctx) {
        let Some(base) = constant_base(ch) else {
            ctx.skipped = Some("no_constant_base_for_this_configuration");
            return;
        };
        let variant = ch.index("remainder.form", 5);
        let Some((what, data)) = wire::coordinated_fault(base.bytes(), base.layout(), wire::REMAINDER_KIND, variant) else {
            ctx.skipped = Some("remainder_has_a_single_coefficient");
            return;
        };
        ctx.fault("remainder_re_encoded_on_a_low_degree_proof");
        danger_zone(ch);
        let d = base.deliver(&data, false, Inputs::Matching, 0, ch, ctx);
        ctx.event_with("deliver", simcore::rng::fnv1a(format!("{}{what}{:?}{:?}{:?}", base.name(), d.parse, d.verify.as_ref().map(|v| v.short()), d.same_content).as_bytes()), || {
            format!("base [{}] (constant trace): {what} -> parse {:?}, verify {}, content unchanged: {:?}", base.name(), d.parse, d.verify.as_ref().map(|v| v.short()).unwrap_or("-".into()), d.same_content)
        });
        judge(ctx, base.as_ref(), &what, &d, "low-degree");
    }
}

pub fn spec() -> CheckSpec {
    let iso = |a: Box<dyn Arm>| -> Box<dyn Arm> { Box::new(IsoArm { check_id: "C03", inner: a, timeout_s: 60, exe_env: None, alias: None }) };
    let arms: Vec<Box<dyn Arm>> = vec![
        iso(Box::new(EnumArm { kind: EnumKind::Counts, index: simcore::Keyed::new(), quick_bases: usize::MAX })),
        iso(Box::new(EnumArm { kind: EnumKind::Coordinated, index: simcore::Keyed::new(), quick_bases: usize::MAX })),
        iso(Box::new(EnumArm { kind: EnumKind::BitFlips, index: simcore::Keyed::new(), quick_bases: 14 })),
        iso(Box::new(SampledArm)),
        Box::new(crate::c03_adaptive::AdaptiveArm),
        iso(Box::new(RemainderFormsArm)),
    ];
    CheckSpec {
        id: "C03",
        level: "fault_enumeration",
        build: "serial",
        rule: "bases = accepted honest proofs across (field, hasher) pairs, extensions and shape / option flavours. Enumerated completely per base: every single-bit flip (quick: 14 bases, thorough: all) and every count / length / tag field x boundary values. Sampled: byte overwrites, component removal / duplication / swap with and without prefix fix-up, blob growth / shrinkage, splices, random fields. Adaptive arm: a man in the middle that first learns the verifier's query positions (recording coin) and then substitutes components that agree with the original on every queried position (FRI remainder + multiple of the vanishing polynomial of the queried points, remainder commitment, reordered / duplicated openings, OOD values, re-ground nonce, altered context). low-degree-remainder-forms: fresh proofs of constant traces (deliberately degenerate) whose remainder is re-encoded with fewer or more coefficients (zero upper part dropped / zeros appended / doubled / emptied), length prefix fixed. Oracle: mutated proof parses AND is accepted => its decoded content (digests, field elements, counts; FRI partition count excluded) equals the original's. Non-trivial = a fault fired; distinct = distinct event-log digests.".into(),
        interleaving_measure: "distinct (base, fault / substitution, verdict) histories".into(),
        real: vec!["Proof deserializers, winter-verifier verify(), FRI verifier, Merkle batch verification (all real)"],
        stub: vec!["SimAir (the computation family)", "the harness' semantic decoder (decides whether content changed)"],
        assumptions: vec![
            "two carve-outs of the property are built into the content comparison: the FRI partition count (layout-only) and alternative byte encodings of one digest / element (values are compared after canonical decoding)",
            "collision / forgery probabilities (>= 192-bit digests, >= 62-bit fields) are treated as zero",
        ],
        arms,
    }
}
