//! Wire codec: a harness-side map of a serialized proof into named fields with offsets, so
//! that structural faults can be aimed (counts, lengths, digests, elements, blobs), plus the
//! blind fault generators (bit flips, truncation, garbage) of the hostile transport.

use simcore::Chooser;

#[derive(Clone, Copy, Debug, PartialEq, Eq)]
pub enum Kind {
    /// a count / length / size field of `len` bytes (little endian)
    Count,
    /// a one-byte enumerated or flag field
    Tag,
    Digest,
    Element,
    /// opaque bytes (metadata, modulus, nonce, gkr payload)
    Bytes,
}

#[derive(Clone, Debug)]
pub struct Field {
    pub name: String,
    pub off: usize,
    pub len: usize,
    pub kind: Kind,
    /// (offset, width) of every enclosing byte-length prefix that must grow / shrink when
    /// bytes are inserted / removed inside this field
    pub enclosing: Vec<(usize, usize)>,
}

/// A removable / duplicable component: byte range + the item counter it is counted by
#[derive(Clone, Debug)]
pub struct Component {
    pub name: String,
    pub off: usize,
    pub len: usize,
    /// (offset, width) of the counter that counts components of this kind (if any)
    pub counter: Option<(usize, usize)>,
    pub enclosing: Vec<(usize, usize)>,
}

#[derive(Clone, Debug, Default)]
pub struct Layout {
    pub fields: Vec<Field>,
    pub components: Vec<Component>,
    pub total: usize,
}

struct Cur<'a> {
    b: &'a [u8],
    pos: usize,
    enc: Vec<(usize, usize)>,
    out: Layout,
}

impl<'a> Cur<'a> {
    fn field(&mut self, name: impl Into<String>, len: usize, kind: Kind) -> Option<u64> {
        if self.pos + len > self.b.len() {
            return None;
        }
        let mut v = 0u64;
        for (i, byte) in self.b[self.pos..self.pos + len].iter().take(8).enumerate() {
            v |= (*byte as u64) << (8 * i);
        }
        self.out.fields.push(Field { name: name.into(), off: self.pos, len, kind, enclosing: self.enc.clone() });
        self.pos += len;
        Some(v)
    }

    fn items(&mut self, name: &str, count: usize, size: usize, kind: Kind) -> Option<()> {
        for i in 0..count {
            self.field(format!("{name}[{i}]"), size, kind)?;
        }
        Some(())
    }

    /// batch-Merkle node vectors inside a `paths` blob of `len` bytes
    fn paths(&mut self, name: &str, len: usize, dsz: usize) -> Option<()> {
        let end = self.pos + len;
        let cnt_off = self.pos;
        let nv = self.field(format!("{name}.num_vectors"), 1, Kind::Count)? as usize;
        for v in 0..nv {
            if self.pos >= end {
                return Some(());
            }
            let start = self.pos;
            let ndig_off = self.pos;
            let nd = self.field(format!("{name}.vec[{v}].num_digests"), 1, Kind::Count)? as usize;
            for d in 0..nd {
                let doff = self.pos;
                self.field(format!("{name}.vec[{v}].digest[{d}]"), dsz, Kind::Digest)?;
                self.out.components.push(Component {
                    name: format!("{name}.vec[{v}].digest[{d}]"),
                    off: doff,
                    len: dsz,
                    counter: Some((ndig_off, 1)),
                    enclosing: self.enc.clone(),
                });
            }
            self.out.components.push(Component {
                name: format!("{name}.vec[{v}]"),
                off: start,
                len: self.pos - start,
                counter: Some((cnt_off, 1)),
                enclosing: self.enc.clone(),
            });
        }
        if self.pos != end {
            // leftover (should not happen for honest proofs)
            let rest = end.saturating_sub(self.pos);
            self.field(format!("{name}.rest"), rest, Kind::Bytes)?;
        }
        Some(())
    }

    /// Queries / FriProofLayer: u32 values_len, values, u32 paths_len, paths
    fn queries(&mut self, name: &str, esz: usize, dsz: usize) -> Option<()> {
        let start = self.pos;
        let off = self.pos;
        let vl = self.field(format!("{name}.values_len"), 4, Kind::Count)? as usize;
        self.enc.push((off, 4));
        let r = self.items(&format!("{name}.value"), vl / esz, esz, Kind::Element);
        if vl % esz != 0 {
            self.field(format!("{name}.values_rest"), vl % esz, Kind::Bytes);
        }
        self.enc.pop();
        r?;
        let off = self.pos;
        let pl = self.field(format!("{name}.paths_len"), 4, Kind::Count)? as usize;
        self.enc.push((off, 4));
        let r = self.paths(&format!("{name}.paths"), pl, dsz);
        self.enc.pop();
        r?;
        self.out.components.push(Component { name: name.to_string(), off: start, len: self.pos - start, counter: None, enclosing: self.enc.clone() });
        Some(())
    }
}

/// Maps an honest serialized proof. `dsz` = digest size in bytes, `esz` = size of one element of
/// the proof's extension field, `bsz` = base element size.
pub fn layout(bytes: &[u8], dsz: usize, esz: usize, bsz: usize) -> Layout {
    let mut c = Cur { b: bytes, pos: 0, enc: vec![], out: Layout::default() };
    let _ = walk(&mut c, dsz, esz, bsz);
    c.out.total = bytes.len();
    c.out
}

fn walk(c: &mut Cur, dsz: usize, esz: usize, bsz: usize) -> Option<()> {
    let _ = bsz;
    // context: trace info
    c.field("ctx.main_width", 1, Kind::Count)?;
    let aux_w = c.field("ctx.aux_width", 1, Kind::Count)?;
    c.field("ctx.aux_rands", 1, Kind::Count)?;
    c.field("ctx.log_trace_len", 1, Kind::Count)?;
    let ml = c.field("ctx.meta_len", 2, Kind::Count)? as usize;
    if ml > 0 {
        c.field("ctx.meta", ml, Kind::Bytes)?;
    }
    let modl = c.field("ctx.modulus_len", 1, Kind::Count)? as usize;
    c.field("ctx.modulus", modl, Kind::Bytes)?;
    c.field("ctx.opt.num_queries", 1, Kind::Count)?;
    c.field("ctx.opt.blowup", 1, Kind::Count)?;
    c.field("ctx.opt.grinding", 1, Kind::Count)?;
    c.field("ctx.opt.extension", 1, Kind::Tag)?;
    c.field("ctx.opt.folding", 1, Kind::Count)?;
    c.field("ctx.opt.remainder_max_degree", 1, Kind::Count)?;
    c.field("num_unique_queries", 1, Kind::Count)?;
    // commitments
    let off = c.pos;
    let cl = c.field("commitments.len", 2, Kind::Count)? as usize;
    c.enc.push((off, 2));
    let r = c.items("commitments.digest", cl / dsz, dsz, Kind::Digest);
    c.enc.pop();
    r?;
    // trace queries
    let segs = 1 + (aux_w > 0) as usize;
    for s in 0..segs {
        c.queries(&format!("trace_queries[{s}]"), if s == 0 { bsz } else { esz }, dsz)?;
    }
    c.queries("constraint_queries", esz, dsz)?;
    // ood frame
    let off = c.pos;
    let l1 = c.field("ood.trace_states_len", 2, Kind::Count)? as usize;
    c.enc.push((off, 2));
    let r = (|| {
        c.field("ood.frame_size", 1, Kind::Count)?;
        c.items("ood.trace_state", (l1 - 1) / esz, esz, Kind::Element)
    })();
    c.enc.pop();
    r?;
    let off = c.pos;
    let l2 = c.field("ood.lagrange_len", 2, Kind::Count)? as usize;
    c.enc.push((off, 2));
    let r = (|| {
        if l2 > 0 {
            c.field("ood.lagrange_count", 1, Kind::Count)?;
            c.items("ood.lagrange_state", (l2 - 1) / esz, esz, Kind::Element)?;
        }
        Some(())
    })();
    c.enc.pop();
    r?;
    let off = c.pos;
    let l3 = c.field("ood.evaluations_len", 2, Kind::Count)? as usize;
    c.enc.push((off, 2));
    let r = c.items("ood.evaluation", l3 / esz, esz, Kind::Element);
    c.enc.pop();
    r?;
    // fri proof
    let nl_off = c.pos;
    let nl = c.field("fri.num_layers", 1, Kind::Count)? as usize;
    for l in 0..nl {
        let before = c.out.components.len();
        c.queries(&format!("fri.layer[{l}]"), esz, dsz)?;
        // the layer component itself is counted by fri.num_layers
        if let Some(last) = c.out.components.last_mut() {
            if last.name == format!("fri.layer[{l}]") {
                last.counter = Some((nl_off, 1));
            }
        }
        let _ = before;
    }
    let off = c.pos;
    let rl = c.field("fri.remainder_len", 2, Kind::Count)? as usize;
    c.enc.push((off, 2));
    let r = c.items("fri.remainder", rl / esz, esz, Kind::Element);
    c.enc.pop();
    r?;
    c.field("fri.num_partitions_log2", 1, Kind::Count)?;
    c.field("pow_nonce", 8, Kind::Bytes)?;
    let flag = c.field("gkr.present", 1, Kind::Tag)?;
    if flag == 1 {
        // vint64 length
        let first = *c.b.get(c.pos)?;
        let vl = (first.trailing_zeros() as usize + 1).min(9);
        c.field("gkr.len_vint", vl, Kind::Count)?;
        let rest = c.b.len() - c.pos;
        if rest > 0 {
            c.field("gkr.payload", rest, Kind::Bytes)?;
        }
    }
    Some(())
}

fn put(bytes: &mut [u8], off: usize, width: usize, v: u64) {
    for i in 0..width {
        bytes[off + i] = (v >> (8 * i)) as u8;
    }
}

fn get(bytes: &[u8], off: usize, width: usize) -> u64 {
    let mut v = 0u64;
    for i in 0..width.min(8) {
        v |= (bytes[off + i] as u64) << (8 * i);
    }
    v
}

/// boundary values for a count field of `width` bytes whose honest value is `t`
pub fn count_values(width: usize, t: u64) -> Vec<u64> {
    if width == 1 {
        // one-byte fields are cheap to enumerate completely
        return (0..=255u64).filter(|v| *v != t).collect();
    }
    let max = if width >= 8 { u64::MAX } else { (1u64 << (8 * width)) - 1 };
    let mut v = vec![0, 1, max - 1, max, t.wrapping_add(1) & max, t.wrapping_sub(1) & max, 2, max / 2, max / 2 + 1];
    v.sort_unstable();
    v.dedup();
    v.retain(|x| *x != t);
    v
}

/// remove a component, optionally fixing its counter and the enclosing byte-length prefixes
pub fn remove_component(bytes: &[u8], c: &Component, fix_counter: bool, fix_lengths: bool) -> Vec<u8> {
    let mut out = bytes.to_vec();
    if fix_counter {
        if let Some((o, w)) = c.counter {
            let v = get(&out, o, w).wrapping_sub(1);
            put(&mut out, o, w, v);
        }
    }
    if fix_lengths {
        for (o, w) in &c.enclosing {
            let v = get(&out, *o, *w).wrapping_sub(c.len as u64);
            put(&mut out, *o, *w, v);
        }
    }
    out.drain(c.off..c.off + c.len);
    out
}

/// duplicate a component in place (insert a second copy right after it)
pub fn duplicate_component(bytes: &[u8], c: &Component, fix_counter: bool, fix_lengths: bool) -> Vec<u8> {
    let mut out = bytes.to_vec();
    if fix_counter {
        if let Some((o, w)) = c.counter {
            let v = get(&out, o, w).wrapping_add(1);
            put(&mut out, o, w, v);
        }
    }
    if fix_lengths {
        for (o, w) in &c.enclosing {
            let v = get(&out, *o, *w).wrapping_add(c.len as u64);
            put(&mut out, *o, *w, v);
        }
    }
    let copy = bytes[c.off..c.off + c.len].to_vec();
    let at = c.off + c.len;
    out.splice(at..at, copy);
    out
}

/// swap two non-overlapping components of equal length
pub fn swap_components(bytes: &[u8], a: &Component, b: &Component) -> Option<Vec<u8>> {
    if a.len != b.len || a.off == b.off {
        return None;
    }
    let (a, b) = if a.off < b.off { (a, b) } else { (b, a) };
    if a.off + a.len > b.off {
        return None;
    }
    let mut out = bytes.to_vec();
    out[a.off..a.off + a.len].copy_from_slice(&bytes[b.off..b.off + b.len]);
    out[b.off..b.off + b.len].copy_from_slice(&bytes[a.off..a.off + a.len]);
    Some(out)
}

pub fn set_count(bytes: &[u8], f: &Field, v: u64) -> Vec<u8> {
    let mut out = bytes.to_vec();
    put(&mut out, f.off, f.len, v);
    out
}

/// one sampled blind / structural fault; returns (description, mutated bytes)
pub fn sampled_fault(ch: &mut Chooser, bytes: &[u8], lay: &Layout, other: Option<&[u8]>) -> (String, Vec<u8>) {
    let n = bytes.len();
    if !lay.fields.is_empty() && ch.chance("hostile.coordinated?", 1, 4) {
        let kind = ch.index("hostile.ckind", COORDINATED_KINDS);
        let variant = ch.index("hostile.cvariant", 16);
        if let Some(r) = coordinated_fault(bytes, lay, kind, variant) {
            return r;
        }
    }
    match ch.weighted("hostile.kind", &[3, 2, 3, 3, 3, 2, 2, 1, 2, 3]) {
        0 => {
            if n == 0 {
                return ("empty input".into(), vec![]);
            }
            let i = ch.index("hostile.byte", n);
            let v = [0x00u8, 0x01, 0x7f, 0x80, 0xfe, 0xff][ch.index("hostile.val", 6)];
            let mut out = bytes.to_vec();
            out[i] = v;
            (format!("byte {i} overwritten with {v:#04x}"), out)
        },
        1 => {
            let k = 1 + ch.index("hostile.tail", 64);
            let mut out = bytes.to_vec();
            let salt = ch.u64("hostile.salt");
            let mut r = simcore::rng::Xoshiro::from_u64(salt);
            for _ in 0..k {
                out.push(r.next() as u8);
            }
            (format!("{k} bytes of trailing garbage"), out)
        },
        2 => {
            if lay.components.is_empty() {
                return ("no components".into(), bytes.to_vec());
            }
            let c = &lay.components[ch.index("hostile.comp", lay.components.len())];
            let fc = ch.chance("hostile.fixcount?", 1, 2);
            let fl = ch.chance("hostile.fixlen?", 2, 3);
            (format!("component {} removed (counter fixed: {fc}, length prefixes fixed: {fl})", c.name), remove_component(bytes, c, fc, fl))
        },
        3 => {
            if lay.components.is_empty() {
                return ("no components".into(), bytes.to_vec());
            }
            let c = &lay.components[ch.index("hostile.comp", lay.components.len())];
            let fc = ch.chance("hostile.fixcount?", 1, 2);
            let fl = ch.chance("hostile.fixlen?", 2, 3);
            (format!("component {} duplicated (counter fixed: {fc}, length prefixes fixed: {fl})", c.name), duplicate_component(bytes, c, fc, fl))
        },
        4 => {
            let k = lay.components.len();
            if k < 2 {
                return ("no components".into(), bytes.to_vec());
            }
            let a = &lay.components[ch.index("hostile.compA", k)];
            let same: Vec<&Component> = lay.components.iter().filter(|c| c.len == a.len && c.off != a.off).collect();
            if same.is_empty() {
                return ("no swap partner".into(), bytes.to_vec());
            }
            let b = same[ch.index("hostile.compB", same.len())];
            match swap_components(bytes, a, b) {
                Some(out) => (format!("components {} and {} swapped", a.name, b.name), out),
                None => ("overlapping swap".into(), bytes.to_vec()),
            }
        },
        5 => {
            // two faults at once: a count field and a bit flip
            let counts: Vec<&Field> = lay.fields.iter().filter(|f| f.kind == Kind::Count).collect();
            if counts.is_empty() || n == 0 {
                return ("no count fields".into(), bytes.to_vec());
            }
            let f = counts[ch.index("hostile.field", counts.len())];
            let vals = count_values(f.len, get(bytes, f.off, f.len));
            let v = vals[ch.index("hostile.countval", vals.len())];
            let mut out = set_count(bytes, f, v);
            let bit = ch.index("hostile.bit", n * 8);
            out[bit / 8] ^= 1 << (bit % 8);
            (format!("{} set to {v} and bit {bit} flipped", f.name), out)
        },
        6 => {
            // splice with another proof at a field boundary
            match other {
                Some(o) if !lay.fields.is_empty() => {
                    let f = &lay.fields[ch.index("hostile.field", lay.fields.len())];
                    let cut = f.off.min(o.len());
                    let mut out = bytes[..f.off].to_vec();
                    out.extend_from_slice(&o[cut..]);
                    (format!("spliced with another proof at field {}", f.name), out)
                },
                _ => ("no splice partner".into(), bytes.to_vec()),
            }
        },
        7 => {
            let len = ch.index("hostile.rndlen", 600);
            let salt = ch.u64("hostile.salt");
            let mut r = simcore::rng::Xoshiro::from_u64(salt);
            ((format!("{len} uniformly random bytes")), (0..len).map(|_| r.next() as u8).collect())
        },
        8 => {
            // a field replaced by random content
            if lay.fields.is_empty() {
                return ("no fields".into(), bytes.to_vec());
            }
            let f = &lay.fields[ch.index("hostile.field", lay.fields.len())];
            let salt = ch.u64("hostile.salt");
            let mut r = simcore::rng::Xoshiro::from_u64(salt);
            let mut out = bytes.to_vec();
            for b in &mut out[f.off..f.off + f.len] {
                *b = r.next() as u8;
            }
            (format!("field {} replaced by random bytes", f.name), out)
        },
        _ => {
            // grow / shrink a length-prefixed blob with and without fixing the prefix
            let counts: Vec<&Field> = lay.fields.iter().filter(|f| f.kind == Kind::Count && f.name.ends_with("len")).collect();
            if counts.is_empty() {
                return ("no length fields".into(), bytes.to_vec());
            }
            let f = counts[ch.index("hostile.lenfield", counts.len())];
            let cur = get(bytes, f.off, f.len) as usize;
            let start = f.off + f.len;
            let grow = ch.chance("hostile.grow?", 1, 2);
            let k = 1 + ch.index("hostile.k", 40);
            let fix = ch.chance("hostile.fixlen?", 1, 2);
            let mut out = bytes.to_vec();
            if grow {
                let at = (start + cur).min(out.len());
                out.splice(at..at, std::iter::repeat(0u8).take(k));
                if fix {
                    put(&mut out, f.off, f.len, (cur + k) as u64);
                }
                (format!("blob after {} extended by {k} zero bytes (prefix fixed: {fix})", f.name), out)
            } else {
                let k = k.min(cur);
                let at = (start + cur - k).min(out.len());
                let end = (at + k).min(out.len());
                out.drain(at..end);
                if fix {
                    put(&mut out, f.off, f.len, (cur - k) as u64);
                }
                (format!("blob after {} shortened by {k} bytes (prefix fixed: {fix})", f.name), out)
            }
        },
    }
}

// COORDINATED EDITS
// ------------------------------------------------------------------------------------------------
// Structural edits that keep the proof self-consistent (every dependent count and length prefix
// is adjusted), so that they get past the parsers and reach the code that *uses* the counts.

fn find<'a>(lay: &'a Layout, name: &str) -> Option<&'a Field> {
    lay.fields.iter().find(|f| f.name == name)
}

fn fields_with_prefix<'a>(lay: &'a Layout, prefix: &str) -> Vec<&'a Field> {
    lay.fields.iter().filter(|f| f.name.starts_with(prefix)).collect()
}

/// replace the blob that follows the length field `lenf` by `content`, fixing the prefix and
/// every enclosing prefix
fn replace_blob(bytes: &[u8], lenf: &Field, content: &[u8]) -> Vec<u8> {
    let cur = get(bytes, lenf.off, lenf.len) as usize;
    let start = lenf.off + lenf.len;
    let mut out = bytes.to_vec();
    for (o, w) in &lenf.enclosing {
        let v = (get(&out, *o, *w) as i128 + content.len() as i128 - cur as i128) as u64;
        put(&mut out, *o, *w, v);
    }
    put(&mut out, lenf.off, lenf.len, content.len() as u64);
    out.splice(start..(start + cur).min(bytes.len()), content.iter().copied());
    out
}

/// number of coordinated edit kinds
pub const COORDINATED_KINDS: usize = 13;
/// index of "FRI remainder of another length" among the coordinated kinds (the `_` arm below)
pub const REMAINDER_KIND: usize = 7;

/// The `variant`-th flavour of coordinated edit `kind`; None when it does not apply to this proof.
pub fn coordinated_fault(bytes: &[u8], lay: &Layout, kind: usize, variant: usize) -> Option<(String, Vec<u8>)> {
    match kind {
        0 => {
            // OOD frame size f' with exactly width * f' trace states
            let lenf = find(lay, "ood.trace_states_len")?;
            let states = fields_with_prefix(lay, "ood.trace_state[");
            let esz = states.first()?.len;
            let w = states.len() / 2;
            let f = [0usize, 1, 3, 4, 255][variant % 5];
            let mut content = vec![f as u8];
            let src_start = states.first()?.off;
            let avail = states.len() * esz;
            for i in 0..w * f * esz {
                content.push(bytes[src_start + i % avail.max(1)]);
            }
            if content.len() > 65000 {
                return None;
            }
            Some((format!("coordinated: OOD frame size set to {f} with {} trace states to match", w * f), replace_blob(bytes, lenf, &content)))
        },
        1 => {
            // a Lagrange kernel frame of c elements (consistent count) in any proof
            let lenf = find(lay, "ood.lagrange_len")?;
            let states = fields_with_prefix(lay, "ood.trace_state[");
            let esz = states.first()?.len;
            // sizes: a few fixed ones and the one size a Lagrange column of THIS trace would have
            // (log2(trace length) + 1); variants 8..15 additionally drop the last column's two
            // states from the ordinary frame, as if the last auxiliary column were the Lagrange
            // one - every byte is then consumed by the parser
            let log_n = get(bytes, find(lay, "ctx.log_trace_len")?.off, 1) as usize;
            let c = [log_n + 1, 1, 2, 4, 11, 255, log_n, log_n + 2][variant % 8];
            let mut content = vec![c as u8];
            let src_start = states.first()?.off;
            let avail = states.len() * esz;
            for i in 0..c * esz {
                content.push(bytes[src_start + i % avail.max(1)]);
            }
            let mut out = replace_blob(bytes, lenf, &content);
            let mut what = format!("coordinated: Lagrange kernel frame of {c} elements supplied");
            if variant % 16 >= 8 && states.len() >= 4 {
                let tl = find(lay, "ood.trace_states_len")?;
                let cur = get(&out, tl.off, 2) as usize;
                let start = tl.off + 2;
                let kept = out[start..start + cur - 2 * esz].to_vec();
                out = replace_blob(&out, tl, &kept);
                what.push_str(", the last column's two states dropped from the ordinary frame");
            }
            Some((what, out))
        },
        2 => {
            // one more / one fewer opened row in EVERY query set, num_unique_queries adjusted
            let nq = find(lay, "num_unique_queries")?;
            let q = get(bytes, nq.off, 1) as usize;
            let grow = variant % 2 == 0;
            if !grow && q < 2 {
                return None;
            }
            let mut out = bytes.to_vec();
            // process from the back so that earlier offsets stay valid
            let mut lens: Vec<&Field> = lay.fields.iter().filter(|f| f.name.ends_with(".values_len") && !f.name.starts_with("fri.")).collect();
            lens.sort_by_key(|f| std::cmp::Reverse(f.off));
            for lf in lens {
                let cur = get(bytes, lf.off, 4) as usize;
                if q == 0 || cur % q != 0 {
                    return None;
                }
                let row = cur / q;
                let start = lf.off + 4;
                let mut content = bytes[start..start + cur].to_vec();
                if grow {
                    let last = content[cur - row..].to_vec();
                    content.extend_from_slice(&last);
                } else {
                    content.truncate(cur - row);
                }
                out = replace_blob(&out, lf, &content);
            }
            put(&mut out, nq.off, 1, if grow { q as u64 + 1 } else { q as u64 - 1 });
            Some((format!("coordinated: one opened row {} in every query set, num_unique_queries {} -> {}", if grow { "appended" } else { "removed" }, q, if grow { q + 1 } else { q - 1 }), out))
        },
        3 => {
            // one more / one fewer query in one FRI layer
            let lens: Vec<&Field> = lay.fields.iter().filter(|f| f.name.starts_with("fri.layer[") && f.name.ends_with(".values_len")).collect();
            if lens.is_empty() {
                return None;
            }
            let lf = lens[(variant / 2) % lens.len()];
            let name = lf.name.trim_end_matches(".values_len").to_string();
            let nvals = fields_with_prefix(lay, &format!("{name}.value[")).len();
            let npos = lay.fields.iter().find(|f| f.name == format!("{name}.paths.num_vectors")).map(|f| get(bytes, f.off, 1) as usize).unwrap_or(1).max(1);
            let _ = npos;
            let cur = get(bytes, lf.off, 4) as usize;
            let esz = cur / nvals.max(1);
            // a query is `folding` elements; we do not know folding here: try 2, 4, 8, 16 by variant
            let n = [2usize, 4, 8, 16][(variant / 4) % 4] * esz;
            let start = lf.off + 4;
            let mut content = bytes[start..start + cur].to_vec();
            if variant % 2 == 0 {
                let tail = content[cur.saturating_sub(n)..].to_vec();
                content.extend_from_slice(&tail);
            } else {
                if cur <= n {
                    return None;
                }
                content.truncate(cur - n);
            }
            Some((format!("coordinated: {name} values {} by {n} bytes", if variant % 2 == 0 { "extended" } else { "shortened" }), replace_blob(bytes, lf, &content)))
        },
        4 => {
            // field modulus of another length, consistent length byte
            let lenf = find(lay, "ctx.modulus_len")?;
            let cur = get(bytes, lenf.off, 1) as usize;
            let l = [1usize, 2, 4, 7, 9, 15, 16, 17, 32, 255][variant % 10];
            if l == cur {
                return None;
            }
            let start = lenf.off + 1;
            let mut content: Vec<u8> = bytes[start..start + cur].to_vec();
            content.resize(l, if variant % 3 == 0 { 0xff } else { 0 });
            Some((format!("coordinated: field modulus of {l} bytes (was {cur})"), replace_blob(bytes, lenf, &content)))
        },
        5 => {
            // one more / one fewer commitment
            let lenf = find(lay, "commitments.len")?;
            let ds = fields_with_prefix(lay, "commitments.digest[");
            let dsz = ds.first()?.len;
            let cur = get(bytes, lenf.off, 2) as usize;
            let start = lenf.off + 2;
            let mut content = bytes[start..start + cur].to_vec();
            if variant % 2 == 0 {
                let last = content[cur - dsz..].to_vec();
                content.extend_from_slice(&last);
            } else {
                content.truncate(cur - dsz);
            }
            Some((format!("coordinated: one commitment {}", if variant % 2 == 0 { "appended" } else { "removed" }), replace_blob(bytes, lenf, &content)))
        },
        6 => {
            // a GKR proof of L bytes (consistent), or a huge announced length without bytes
            let flag = find(lay, "gkr.present")?;
            let mut out = bytes[..flag.off].to_vec();
            out.push(1);
            let l: u64 = [0u64, 1, 8, 127, 128, 129, 300, 1 << 40, u64::MAX, u64::MAX - 7][variant % 10];
            // vint64 encoding
            let zeros = l.leading_zeros() as usize;
            let len = 9 - ((zeros.saturating_sub(1)) / 7).min(8);
            if len == 9 {
                out.push(0);
                out.extend_from_slice(&l.to_le_bytes());
            } else {
                let enc = ((l << 1 | 1) << (len - 1)).to_le_bytes();
                out.extend_from_slice(&enc[..len]);
            }
            if l <= 300 {
                out.extend(std::iter::repeat(3u8).take(l as usize));
            }
            Some((format!("coordinated: GKR proof announced with {l} bytes"), out))
        },
        10 => {
            // one surplus (arbitrary) digest appended to a node vector of a batch Merkle opening,
            // with the vector's count and every enclosing length prefix adjusted; the vectors are
            // taken evenly from first to last (the last FRI layer's included, whose tree may have
            // two leaves only and whose node vectors may be empty)
            let vecs: Vec<&Field> = lay.fields.iter().filter(|f| f.name.ends_with(".num_digests")).collect();
            if vecs.is_empty() {
                return None;
            }
            let dsz = fields_with_prefix(lay, "commitments.digest[").first()?.len;
            let k = if variant % 16 == 15 { vecs.len() - 1 } else { (variant % 16) * vecs.len() / 15 };
            let f = vecs[k.min(vecs.len() - 1)];
            let nd = get(bytes, f.off, 1) as usize;
            if nd >= 255 {
                return None;
            }
            let mut out = bytes.to_vec();
            put(&mut out, f.off, 1, nd as u64 + 1);
            for (o, w) in &f.enclosing {
                let v = get(&out, *o, *w).wrapping_add(dsz as u64);
                put(&mut out, *o, *w, v);
            }
            let at = f.off + 1 + nd * dsz;
            let junk: Vec<u8> = (0..dsz).map(|i| 0xA5u8 ^ (i as u8).wrapping_mul(29) ^ variant as u8).collect();
            out.splice(at..at, junk);
            Some((format!("coordinated: a surplus digest appended to {} (now {} digests)", f.name.trim_end_matches(".num_digests"), nd + 1), out))
        },
        11 => {
            // the counterpart of kind 10: the last digest dropped from a node vector of a batch
            // Merkle opening, or the vector emptied, with the vector's count and every enclosing
            // length prefix adjusted (a single-query opening then carries a path without nodes)
            let vecs: Vec<&Field> = lay.fields.iter().filter(|f| f.name.ends_with(".num_digests") && get(bytes, f.off, 1) > 0).collect();
            if vecs.is_empty() {
                return None;
            }
            let dsz = fields_with_prefix(lay, "commitments.digest[").first()?.len;
            let v8 = variant % 8;
            let k = if v8 == 7 { vecs.len() - 1 } else { v8 * vecs.len() / 7 };
            let f = vecs[k.min(vecs.len() - 1)];
            let nd = get(bytes, f.off, 1) as usize;
            let drop = if variant % 16 < 8 { 1 } else { nd };
            let mut out = bytes.to_vec();
            put(&mut out, f.off, 1, (nd - drop) as u64);
            for (o, w) in &f.enclosing {
                let v = get(&out, *o, *w).wrapping_sub((drop * dsz) as u64);
                put(&mut out, *o, *w, v);
            }
            let at = f.off + 1 + (nd - drop) * dsz;
            out.drain(at..at + drop * dsz);
            Some((format!("coordinated: {} dropped from {} (now {} digests)", if drop == nd { "every digest" } else { "the last digest" }, f.name.trim_end_matches(".num_digests"), nd - drop), out))
        },
        12 => {
            // one base-field limb of an element replaced by limb + k * M (M = the field modulus the
            // proof's own context carries): another byte string for the same residue. A decoder
            // that reduces instead of refusing makes the proof malleable. Only limbs whose alias
            // still fits the limb's width qualify (every limb of the 62-bit field; zero or tiny
            // limbs of the 64- and 128-bit fields).
            let mlen = find(lay, "ctx.modulus_len")?;
            let l = get(bytes, mlen.off, 1) as usize;
            if l != 8 && l != 16 {
                return None;
            }
            let rd = |b: &[u8], off: usize| -> u128 {
                let mut buf = [0u8; 16];
                buf[..l].copy_from_slice(&b[off..off + l]);
                u128::from_le_bytes(buf)
            };
            let m = rd(bytes, mlen.off + 1);
            let cap: u128 = if l == 16 { u128::MAX } else { u64::MAX as u128 };
            let k: u128 = 1 + (variant as u128 / 8) % 2;
            let add = m.checked_mul(k)?;
            let mut limbs: Vec<usize> = vec![];
            for f in lay.fields.iter().filter(|f| f.kind == Kind::Element && f.len % l == 0) {
                for j in 0..f.len / l {
                    let off = f.off + j * l;
                    if rd(bytes, off).checked_add(add).map(|v| v <= cap).unwrap_or(false) {
                        limbs.push(off);
                    }
                }
            }
            if limbs.is_empty() {
                return None;
            }
            let v8 = variant % 8;
            let off = limbs[if v8 == 7 { limbs.len() - 1 } else { v8 * limbs.len() / 7 }.min(limbs.len() - 1)];
            let new = rd(bytes, off) + add;
            let mut out = bytes.to_vec();
            out[off..off + l].copy_from_slice(&new.to_le_bytes()[..l]);
            Some((format!("coordinated: element limb at offset {off} replaced by its alias + {k} * modulus ({} eligible limbs)", limbs.len()), out))
        },
        9 => {
            // the proof-of-work nonce moved by a multiple of the base field's modulus M (read from
            // the proof's own context), or set to M itself: integers that a hasher which splits
            // the nonce into field elements must keep apart from the original
            let mlen = find(lay, "ctx.modulus_len")?;
            let l = get(bytes, mlen.off, 1) as usize;
            if l > 8 {
                return None;
            }
            let m = get(bytes, mlen.off + 1, l);
            let nf = find(lay, "pow_nonce")?;
            let cur = get(bytes, nf.off, 8);
            let new = match variant % 4 {
                0 => cur.checked_add(m)?,
                1 => cur.checked_add(m.checked_mul(2)?)?,
                2 => cur.checked_add(m.checked_mul(3)?)?,
                _ => m,
            };
            if new == cur {
                return None;
            }
            let mut out = bytes.to_vec();
            put(&mut out, nf.off, 8, new);
            Some((format!("coordinated: proof-of-work nonce {cur} replaced by {new} (modulus {m})"), out))
        },
        8 => {
            // trace metadata of another length with the length prefix adjusted: zero bytes
            // appended (1, 2, 7, 8), the last byte dropped, a non-zero byte appended, all removed
            let lenf = find(lay, "ctx.meta_len")?;
            let cur = get(bytes, lenf.off, 2) as usize;
            let start = lenf.off + 2;
            let mut content = bytes[start..start + cur].to_vec();
            let what = match variant % 8 {
                0 => {
                    content.push(0);
                    "zero bytes appended: one"
                },
                1 => {
                    content.extend_from_slice(&[0, 0]);
                    "zero bytes appended: two"
                },
                2 => {
                    content.extend_from_slice(&[0; 7]);
                    "zero bytes appended: seven"
                },
                3 => {
                    content.extend_from_slice(&[0; 8]);
                    "zero bytes appended: eight"
                },
                4 => {
                    content.pop()?;
                    "shortened: last byte dropped"
                },
                5 => {
                    content.push(1);
                    "extended: a non-zero byte appended"
                },
                6 => {
                    if content.is_empty() {
                        return None;
                    }
                    content.clear();
                    "removed: all bytes"
                },
                _ => {
                    let l = content.len();
                    if l == 0 {
                        return None;
                    }
                    content[l - 1] = 0;
                    content.push(0);
                    "altered: last byte zeroed and a zero byte appended"
                },
            };
            Some((format!("coordinated: trace metadata {what} ({} bytes, was {cur})", content.len()), replace_blob(bytes, lenf, &content)))
        },
        _ => {
            // remainder of another power-of-two length
            let lenf = find(lay, "fri.remainder_len")?;
            let rs = fields_with_prefix(lay, "fri.remainder[");
            let esz = rs.first()?.len;
            let cur = get(bytes, lenf.off, 2) as usize;
            let start = lenf.off + 2;
            let mut content = bytes[start..start + cur].to_vec();
            match variant % 5 {
                0 => {
                    let c = content.clone();
                    content.extend_from_slice(&c);
                },
                1 => {
                    if cur < 2 * esz {
                        return None;
                    }
                    content.truncate(cur / 2);
                },
                2 => content.clear(),
                3 => {
                    // the same polynomial in a longer form: zero coefficients appended
                    content.resize(2 * cur, 0);
                },
                _ => {
                    // the shortest power-of-two form: only the first coefficient
                    if cur < 2 * esz {
                        return None;
                    }
                    content.truncate(esz);
                },
            }
            if content.len() > 65000 {
                return None;
            }
            Some((format!("coordinated: FRI remainder of {} elements (was {})", content.len() / esz, cur / esz), replace_blob(bytes, lenf, &content)))
        },
    }
}
