//! C01 — completeness: the fault-free arm of the protocol sim. Prover node returns Ok, verifier
//! node accepts, also after the proof crossed the byte transport (Vec and chunked stream).

use air::proof::Proof;
use crypto::{DefaultRandomCoin, ElementHasher};
use simcore::{Arm, CheckSpec, Chooser, Ctx, FnArm, RunInfo, Tier};

use crate::dispatch::*;
use crate::pipe::*;
use crate::proto::*;

struct C01Job<'a> {
    ch: &'a mut Chooser,
    ctx: &'a mut Ctx,
    lim: GenLimits,
    cfg: Cfg,
}

impl<'a> Job for C01Job<'a> {
    type Out = ();
    fn run<B: SimField, H: ElementHasher<BaseField = B> + Send + Sync + 'static>(self) {
        run::<B, H>(self.ch, self.ctx, &self.lim, self.cfg)
    }
}

pub fn is_coin_exhaustion(msg: &str) -> bool {
    msg.contains("failed to draw") || msg.contains("FailedToDraw") || msg.contains("RandomCoinError")
}

fn run<B: SimField, H: ElementHasher<BaseField = B> + Send + Sync + 'static>(
    ch: &mut Chooser,
    ctx: &mut Ctx,
    lim: &GenLimits,
    cfg: Cfg,
) {
    let case = gen_case::<B>(ch, lim);
    ctx.event_with("case", simcore::rng::fnv1a(format!("{:?}{:?}{:?}", cfg, case.shape, case.options).as_bytes()), || {
        format!("{:?} {:?}; shape: {}", cfg, case.options, case.shape.describe())
    });
    ctx.nontrivial = true;
    if case.shape.width > 8 {
        ctx.probe("multi_segment_row_matrix");
    }
    if case.shape.width == 255 || case.shape.width + case.shape.aux.as_ref().map(|a| a.width).unwrap_or(0) == 255 {
        ctx.probe("width_255");
    }
    if case.options.num_queries() == 255 {
        ctx.probe("queries_255");
    }
    if case.shape.aux.is_some() {
        ctx.probe("aux_segment");
    }
    if case.shape.aux.as_ref().map(|a| a.lagrange).unwrap_or(false) {
        ctx.probe("lagrange_kernel");
    }
    if case.shape.aux.as_ref().map(|a| a.gkr_empty).unwrap_or(false) {
        ctx.probe("gkr_proof_of_zero_bytes");
    }
    if case.shape.assertions.iter().any(|a| a.kind == AssertKind::Sequence && a.count >= 64) {
        ctx.probe("sequence_assertion_64_or_more");
    }
    if case.shape.exemptions > 1 {
        ctx.probe("exemptions_gt_1");
    }
    if case.shape.assertions.len() >= 256 {
        ctx.probe("assertions_256_or_more");
    }
    if let Some(a) = case.shape.aux.as_ref().and_then(|a| a.asserts.first()) {
        let n = case.shape.len();
        ctx.probe("aux_sequence_assertion");
        if n / a.stride >= 64 {
            ctx.probe("aux_sequence_assertion_64_or_more");
        }
        if a.first != 0 {
            ctx.probe("aux_sequence_assertion_first_step_nonzero");
        }
    }
    if case.options.blowup_factor() > case.shape.min_blowup() {
        ctx.probe("lde_blowup_above_constraint_evaluation_blowup");
    }
    if is_rescue(cfg) {
        ctx.probe("rescue_hasher");
    }

    // the generated trace must be valid by the reference predicate (harness sanity)
    let bad = main_violations(&case.inputs, &case.rows);
    if !bad.is_empty() {
        panic!("harness: generated trace is not valid: {:?}", &bad[..bad.len().min(3)]);
    }

    let (out, _rec) = prove::<B, H, DefaultRandomCoin<H>>(&case, &case.rows, None);
    let proof: Proof = match out {
        ProveOutcome::Ok(p) => *p,
        ProveOutcome::Err(e) => {
            ctx.event_with("prove", 1, || format!("Err({e})"));
            ctx.violation(format!("C01/prove-error {e}"), format!("prover returned Err({e}) for a valid trace; {:?} {:?} shape {}", cfg, case.options, case.shape.describe()));
            return;
        },
        ProveOutcome::Panic(p) => {
            // Exhausting the coin's 1000 attempts for one element is only conceivable where a
            // candidate is accepted with probability 1/64 (cubic extension of the 62-bit field:
            // (63/64)^1000 ~ 1e-7 per draw); with 1/16 or better it is below 1e-28 and a report
            // of exhaustion means the attempts were not per draw
            if is_coin_exhaustion(&p.msg) && B::MODULUS_BITS == 62 && case.options.field_extension() == air::FieldExtension::Cubic {
                ctx.skipped = Some("coin_exhausted");
                return;
            }
            ctx.event_with("prove", 2, || format!("PANIC {}", p.msg));
            ctx.violation(
                format!("C01/prove-panic {}", p.signature()),
                format!("prover panicked at {}:{} ({}) for a valid trace; {:?} {:?} shape {}", p.file, p.line, p.msg, cfg, case.options, case.shape.describe()),
            );
            return;
        },
    };
    let bytes = proof_bytes(&proof);
    ctx.event("prove.ok", bytes.len() as u64, simcore::rng::fnv1a(&bytes));

    let v = verify_with::<B, H, DefaultRandomCoin<H>>(proof.clone(), case.inputs.clone(), &min_sec0());
    ctx.event_with("verify", v.accepted() as u64, || v.short());
    match &v {
        VerifyOutcome::Accept => {},
        VerifyOutcome::Reject(e) => {
            ctx.violation(format!("C01/verify-rejects {e}"), format!("honest proof rejected with {e}; {:?} {:?} shape {}", cfg, case.options, case.shape.describe()));
            return;
        },
        VerifyOutcome::Panic(p) => {
            ctx.violation(
                format!("C01/verify-panic {}", p.signature()),
                format!("verifier panicked at {}:{} ({}) on an honest proof; {:?} {:?} shape {}", p.file, p.line, p.msg, cfg, case.options, case.shape.describe()),
            );
            return;
        },
    }

    // transport 1: Vec<u8> round trip
    match simcore::guard(|| Proof::from_bytes(&bytes)) {
        Ok(Ok(p2)) => {
            if p2 != proof {
                ctx.violation("C01/roundtrip-differs", format!("Proof::from_bytes(to_bytes(p)) != p; {:?} {:?} shape {}", cfg, case.options, case.shape.describe()));
                return;
            }
            let v2 = verify_with::<B, H, DefaultRandomCoin<H>>(p2, case.inputs.clone(), &min_sec0());
            ctx.event_with("verify.roundtrip", v2.accepted() as u64, || v2.short());
            if !v2.accepted() {
                ctx.violation(format!("C01/roundtrip-verify {}", v2.short()), format!("proof accepted before serialization but {} after; {:?} {:?}", v2.short(), cfg, case.options));
                return;
            }
        },
        Ok(Err(e)) => {
            let e = variant_name(&format!("{:?}", e));
            ctx.violation(
                format!("C01/roundtrip-parse-fails {e}"),
                format!("Proof::from_bytes fails on the prover's own bytes: {e}; {:?} {:?} shape {}", cfg, case.options, case.shape.describe()),
            );
            return;
        },
        Err(p) => {
            ctx.violation(format!("C01/roundtrip-parse-panic {}", p.signature()), format!("{}:{} {}", p.file, p.line, p.msg));
            return;
        },
    }

    // transport 2: chunked stream through ReadAdapter
    match parse_streamed(ch, ctx, &bytes) {
        Ok(Ok(p3)) => {
            if p3 != proof {
                ctx.violation("C01/stream-differs", "proof parsed from the chunked stream differs from the original".to_string());
                return;
            }
            let v3 = verify_with::<B, H, DefaultRandomCoin<H>>(p3, case.inputs.clone(), &min_sec0());
            ctx.event_with("verify.stream", v3.accepted() as u64, || v3.short());
            if !v3.accepted() {
                ctx.violation(format!("C01/stream-verify {}", v3.short()), "proof accepted directly but not after the chunked transport".to_string());
            }
        },
        Ok(Err(e)) => {
            let e = variant_name(&format!("{:?}", e));
            ctx.violation(format!("C01/stream-parse-fails {e}"), format!("Proof::read_from over a chunked ReadAdapter fails: {e}; {} bytes", bytes.len()));
        },
        Err(p) => {
            ctx.violation(format!("C01/stream-parse-panic {}", p.signature()), format!("{}:{} {}", p.file, p.line, p.msg));
        },
    }
}

pub fn scenario(info: &RunInfo, ch: &mut Chooser, ctx: &mut Ctx) {
    let thorough = info.tier == Tier::Thorough;
    let cfg = gen_cfg(ch, true);
    let lim = if is_rescue(cfg) {
        GenLimits { max_log_len: if thorough { 7 } else { 5 }, max_width: 20, max_grinding: 2, allow_aux: true }
    } else if thorough {
        GenLimits::thorough()
    } else {
        GenLimits::quick()
    };
    dispatch(cfg, C01Job { ch, ctx, lim, cfg });
}

pub fn spec() -> CheckSpec {
    let arms: Vec<Box<dyn Arm>> = vec![Box::new(FnArm { name: "honest", quick: 4000, thorough: 120_000, f: scenario })];
    CheckSpec {
        id: "C01",
        level: "exploration",
        build: "serial",
        rule: "one run = one generated computation description (SimAir shape: width 1..255, length 8..2048, power / product / periodic-product / constant / linear transition rules of declared degree 1..blowup+1, periodic columns, 1..n/2+1 exemptions, single / periodic / sequence assertions, optional auxiliary segment with optional Lagrange kernel column) x a trace valid by forward execution (incl. constant / zero / low-degree ones) x admissible proof options x (field, hasher) pair x extension; the prover node runs, the proof crosses two transports (byte vector; ReadAdapter over a chunking simulated source) and the verifier node runs three times. Every run is non-trivial; distinct = distinct event-log digests (configuration, shape, options, proof bytes, verdicts, chunk boundaries).".into(),
        interleaving_measure: "the simulator's own dimensions here are the transport chunkings (counted under fault_kinds_fired.transport_chunking) and, in the conc build of C14, the pool schedules; everything else is swarm workload".into(),
        real: vec!["winter-prover, winter-verifier, winter-air, winter-fri, winter-crypto, winter-math (all real)", "utils::ReadAdapter on the streamed transport"],
        stub: vec!["the byte source behind ReadAdapter (SimRead)", "SimAir / SimProver are the harness' computation family (thin wrappers over DefaultTraceLde / DefaultConstraintEvaluator)"],
        assumptions: vec![
            "the admissible class is the property's: options accepted by ProofOptions::new with a well-formed FRI schedule (folding^layers <= trace length) and fewer queries than LDE points",
            "runs in which the coin exhausts its 1000 attempts are discarded only for the cubic extension of the 62-bit field, where that has probability ~1e-7 per draw (counted as skipped.coin_exhausted); elsewhere it is a violation",
            "workload dimensions are sampled swarm-style, not enumerated",
        ],
        arms,
    }
}
