//! Adaptive man in the middle for C03: learns the verifier's query positions and challenges
//! from an honest verification (recording coin), then substitutes components of the proof that
//! agree with the original on everything the verifier looks at.
//!  A1  FRI remainder := remainder + c * (vanishing polynomial of the folded queried points)
//!  A2  opened constraint-composition values changed along the kernel of the DEEP combination
//!  A3  opened trace values (main / auxiliary segment) changed along the kernel of the DEEP
//!      combination
//!  A4  two opened rows swapped together with nothing else (order of openings)

use air::proof::{Proof, Queries};
use air::FieldExtension;
use crypto::ElementHasher;
use fri::FriProof;
use math::fields::{CubeExtension, QuadExtension};
use math::{polynom, FieldElement, StarkField};
use simcore::{Arm, Chooser, Ctx, RunInfo, Tier};
use utils::{Deserializable, Serializable, SliceReader};

use crate::c04::{fri_layers, verifier_draws};
use crate::coin::{self, CoinOp, RecordingCoin};
use crate::dispatch::*;
use crate::pipe::*;
use crate::proto::*;

pub struct AdaptiveArm;

impl Arm for AdaptiveArm {
    fn name(&self) -> String {
        "adaptive-mitm".into()
    }
    fn runs(&self, tier: Tier, _seed: u64) -> u64 {
        match tier {
            Tier::Quick => 4000,
            Tier::Thorough => 100_000,
        }
    }
    fn run(&self, info: &RunInfo, ch: &mut Chooser, ctx: &mut Ctx) {
        let cfg = gen_cfg(ch, info.tier == Tier::Thorough);
        dispatch(cfg, AJob { ch, ctx, cfg, thorough: info.tier == Tier::Thorough });
    }
}

struct AJob<'a> {
    ch: &'a mut Chooser,
    ctx: &'a mut Ctx,
    cfg: Cfg,
    thorough: bool,
}

impl<'a> Job for AJob<'a> {
    type Out = ();
    fn run<B: SimField, H: ElementHasher<BaseField = B> + Send + Sync + 'static>(self) {
        let lim = if is_rescue(self.cfg) {
            GenLimits { max_log_len: 5, max_width: 8, max_grinding: 0, allow_aux: true }
        } else {
            GenLimits { max_log_len: if self.thorough { 8 } else { 6 }, max_width: 12, max_grinding: 2, allow_aux: true }
        };
        let mut case = gen_case::<B>(self.ch, &lim);
        // few queries and a roomy remainder make the adaptive substitutions possible at all
        if self.ch.chance("adaptive.fewq?", 2, 3) {
            let o = &case.options;
            let fo = o.to_fri_options();
            let q = 1 + self.ch.index("adaptive.q", 12);
            let rmaxs = [7usize, 15, 31, 63, 127, 255];
            let mut r = rmaxs[self.ch.index("adaptive.rmax", 6)];
            let mut f = fo.folding_factor();
            if !fri_well_formed(case.shape.len(), o.blowup_factor(), f, r) {
                f = 2;
                r = r.min(case.shape.len() - 1).max(0);
                while !(r + 1).is_power_of_two() {
                    r -= 1;
                }
            }
            case.options = air::ProofOptions::new(q.min(case.shape.len() * o.blowup_factor() - 1), o.blowup_factor(), o.grinding_factor(), o.field_extension(), f, r);
        }
        match case.options.field_extension() {
            FieldExtension::None => run::<B, H, B>(self.ch, self.ctx, self.cfg, &case),
            FieldExtension::Quadratic => run::<B, H, QuadExtension<B>>(self.ch, self.ctx, self.cfg, &case),
            FieldExtension::Cubic => run::<B, H, CubeExtension<B>>(self.ch, self.ctx, self.cfg, &case),
        }
    }
}

fn read_elems<E: FieldElement>(bytes: &[u8]) -> Option<Vec<E>> {
    let mut r = SliceReader::new(bytes);
    let mut out = vec![];
    while utils::ByteReader::has_more_bytes(&r) {
        out.push(E::read_from(&mut r).ok()?);
    }
    Some(out)
}

fn first_elem<E: FieldElement>(b: &[u8]) -> E {
    read_elems::<E>(b).and_then(|v| v.first().copied()).unwrap_or(E::ONE)
}

fn write_elems<E: FieldElement>(v: &[E]) -> Vec<u8> {
    let mut out = vec![];
    for e in v {
        e.write_into(&mut out);
    }
    out
}

/// split a serialized Queries / FriProofLayer into (values bytes, paths bytes)
fn split_queries(qb: &[u8]) -> Option<(Vec<u8>, Vec<u8>)> {
    let vl = u32::from_le_bytes(qb.get(0..4)?.try_into().ok()?) as usize;
    let v = qb.get(4..4 + vl)?.to_vec();
    let pl = u32::from_le_bytes(qb.get(4 + vl..8 + vl)?.try_into().ok()?) as usize;
    let p = qb.get(8 + vl..8 + vl + pl)?.to_vec();
    Some((v, p))
}

fn join_queries(values: &[u8], paths: &[u8]) -> Vec<u8> {
    let mut out = (values.len() as u32).to_le_bytes().to_vec();
    out.extend_from_slice(values);
    out.extend_from_slice(&(paths.len() as u32).to_le_bytes());
    out.extend_from_slice(paths);
    out
}

fn run<B: SimField, H: ElementHasher<BaseField = B> + Send + Sync + 'static, E: FieldElement<BaseField = B>>(
    ch: &mut Chooser,
    ctx: &mut Ctx,
    cfg: Cfg,
    case: &Case<B>,
) {
    ctx.event_with("case", simcore::rng::fnv1a(format!("{:?}{:?}{:?}", cfg, case.shape, case.options).as_bytes()), || {
        format!("{:?} {:?}; shape: {}", cfg, case.options, case.shape.describe())
    });
    if case.rows.iter().all(|r| r == &case.rows[0]) {
        // constant trace: the proof does not depend on any challenge (see hostile.rs)
        ctx.skipped = Some("degenerate_constant_trace");
        return;
    }
    let (out, _) = prove::<B, H, RecordingCoin<H>>(case, &case.rows, None);
    let ProveOutcome::Ok(proof) = out else {
        ctx.skipped = Some("baseline_failed");
        return;
    };
    let proof: Proof = *proof;
    coin::clear_log();
    let v = verify_with::<B, H, RecordingCoin<H>>(proof.clone(), case.inputs.clone(), &min_sec0());
    let vlog = coin::take_log();
    if !v.accepted() {
        ctx.skipped = Some("baseline_failed");
        return;
    }
    let Some(CoinOp::Integers { values: raw_positions, .. }) = vlog.last().cloned() else {
        ctx.skipped = Some("no_positions_recorded");
        return;
    };
    let mut positions = raw_positions.clone();
    positions.sort_unstable();
    positions.dedup();

    let o = &case.options;
    let n = case.shape.len();
    let lde = n * o.blowup_factor();
    let folding = case.folding();
    let layers = fri_layers(lde, o.blowup_factor(), folding, case.rmax());
    let ctxt = || format!("{:?} {:?} shape {}; query positions {:?}", cfg, case.options, case.shape.describe(), &positions[..positions.len().min(8)]);

    let strategy = ch.weighted("adaptive.strategy", &[5, 3, 3, 2]);
    let mut p2 = proof.clone();
    let what: String;
    match strategy {
        0 => {
            // A1: remainder + c * vanishing polynomial of the folded queried points
            let mut pos = positions.clone();
            let mut d = lde;
            for _ in 0..layers {
                pos = fri::folding::fold_positions(&pos, d, folding);
                d /= folding;
            }
            let Ok(rem) = proof.fri_proof.parse_remainder::<E>() else {
                ctx.skipped = Some("remainder_unreadable");
                return;
            };
            if pos.len() >= rem.len() {
                ctx.skipped = Some("A1_no_room_in_remainder");
                return;
            }
            let g = B::get_root_of_unity(d.ilog2());
            let offset = B::GENERATOR;
            let xs: Vec<E> = pos.iter().map(|&p| E::from(offset * g.exp((p as u64).into()))).collect();
            let v = polynom::poly_from_roots(&xs);
            let c = E::from(felt::<B>(1 + ch.pick("A1.c", 1 << 30)));
            let mut r2 = rem.clone();
            for (i, coef) in v.iter().enumerate() {
                r2[i] += c * *coef;
            }
            // splice the new remainder into the serialized FRI proof
            let fb = proof.fri_proof.to_bytes();
            let rb = write_elems(&rem);
            let Some(at) = fb.windows(rb.len()).rposition(|w| w == &rb[..]) else {
                ctx.skipped = Some("remainder_not_located");
                return;
            };
            let mut nb = fb.clone();
            nb[at..at + rb.len()].copy_from_slice(&write_elems(&r2));
            match FriProof::read_from_bytes(&nb) {
                Ok(f) => p2.fri_proof = f,
                Err(_) => {
                    ctx.skipped = Some("substituted_remainder_unparseable");
                    return;
                },
            }
            // A1b (one run in two): the remainder COMMITMENT is replaced as well, by the honest
            // commitment to the substituted remainder - consistent with everything the verifier
            // recomputes; it can only be refused because the query positions (and the last
            // challenge) depend on that commitment
            let mut both = false;
            // A prover that cannot predict the positions is still accepted when all q fresh
            // positions fold onto the k roots of V among the d points of the last layer:
            // probability (k / d)^q, the protocol's soundness error. A1b is asserted only where
            // that is below 2^-40 and counted otherwise.
            let guess_bits = raw_positions.len() as f64 * ((d as f64) / (pos.len().max(1) as f64)).log2();
            if ch.chance("A1.commitment_too?", 1, 2) {
                let segs = 1 + case.shape.aux.is_some() as usize;
                if let Ok((troots, croot, mut froots)) = proof.commitments.clone().parse::<H>(segs, layers) {
                    if let Some(last) = froots.last_mut() {
                        *last = H::hash_elements(&r2);
                        if guess_bits >= 40.0 {
                            p2.commitments = air::proof::Commitments::new::<H>(troots, croot, froots);
                            both = true;
                        } else {
                            ctx.probe("A1b_not_asserted_positions_can_be_met_by_chance");
                        }
                    }
                }
            }
            ctx.fault(if both { "A1b_remainder_and_its_commitment_replaced" } else { "A1_remainder_plus_vanishing_polynomial" });
            what = format!(
                "FRI remainder ({} coefficients) replaced by remainder + c*V(x), V vanishing on the {} folded queried points{}",
                rem.len(),
                pos.len(),
                if both { "; remainder commitment replaced by the commitment to the new remainder" } else { "" }
            );
        },
        1 => {
            // A2: constraint composition openings moved along the kernel of the DEEP combination
            let Some(dc) = verifier_draws(case, &vlog, "DEEP composition") else {
                ctx.skipped = Some("no_deep_coefficients");
                return;
            };
            let aux_w = case.shape.aux.as_ref().map(|a| a.width).unwrap_or(0);
            let tw = case.shape.width + aux_w;
            let ncomp = dc.len() - tw - case.shape.aux.as_ref().map(|a| a.lagrange as usize).unwrap_or(0);
            if ncomp < 2 {
                ctx.skipped = Some("A2_single_composition_column");
                return;
            }
            let c0: E = first_elem::<E>(&dc[tw]);
            let c1: E = first_elem::<E>(&dc[tw + 1]);
            let qb = proof.constraint_queries.to_bytes();
            let Some((vals, paths)) = split_queries(&qb) else { return };
            let Some(mut ev) = read_elems::<E>(&vals) else { return };
            let d = E::from(felt::<B>(1 + ch.pick("A2.delta", 1 << 30)));
            for row in ev.chunks_mut(ncomp) {
                row[0] += d;
                row[1] -= d * c0 / c1;
            }
            match Queries::read_from_bytes(&join_queries(&write_elems(&ev), &paths)) {
                Ok(q) => p2.constraint_queries = q,
                Err(_) => return,
            }
            ctx.fault("A2_constraint_openings_along_deep_kernel");
            what = "every opened constraint-composition row changed by (+d, -d*c0/c1): the DEEP value at each queried position is unchanged".into();
        },
        2 => {
            // A3: trace openings moved along the kernel of the DEEP combination
            let Some(dc) = verifier_draws(case, &vlog, "DEEP composition") else {
                ctx.skipped = Some("no_deep_coefficients");
                return;
            };
            let aux = case.shape.aux.clone();
            let use_aux = aux.as_ref().map(|a| a.plain_cols() >= 2).unwrap_or(false) && ch.chance("A3.aux?", 2, 3);
            if use_aux {
                let w = case.shape.width;
                let aw = aux.unwrap().width;
                let c0: E = first_elem::<E>(&dc[w]);
                let c1: E = first_elem::<E>(&dc[w + 1]);
                let qb = proof.trace_queries[1].to_bytes();
                let Some((vals, paths)) = split_queries(&qb) else { return };
                let Some(mut ev) = read_elems::<E>(&vals) else { return };
                let d = E::from(felt::<B>(1 + ch.pick("A3.delta", 1 << 30)));
                for row in ev.chunks_mut(aw) {
                    row[0] += d;
                    row[1] -= d * c0 / c1;
                }
                match Queries::read_from_bytes(&join_queries(&write_elems(&ev), &paths)) {
                    Ok(q) => p2.trace_queries[1] = q,
                    Err(_) => return,
                }
                ctx.fault("A3_aux_trace_openings_along_deep_kernel");
                what = "every opened auxiliary-trace row changed by (+d, -d*c0/c1) in its first two columns: DEEP values unchanged".into();
            } else {
                if E::EXTENSION_DEGREE != 1 || case.shape.width < 2 {
                    ctx.skipped = Some("A3_needs_base_field_coefficients_or_two_columns");
                    return;
                }
                let w = case.shape.width;
                let c0: B = first_elem::<B>(&dc[0]);
                let c1: B = first_elem::<B>(&dc[1]);
                let qb = proof.trace_queries[0].to_bytes();
                let Some((vals, paths)) = split_queries(&qb) else { return };
                let Some(mut ev) = read_elems::<B>(&vals) else { return };
                let d = felt::<B>(1 + ch.pick("A3.delta", 1 << 30));
                for row in ev.chunks_mut(w) {
                    row[0] += d;
                    row[1] -= d * c0 / c1;
                }
                match Queries::read_from_bytes(&join_queries(&write_elems(&ev), &paths)) {
                    Ok(q) => p2.trace_queries[0] = q,
                    Err(_) => return,
                }
                ctx.fault("A3_main_trace_openings_along_deep_kernel");
                what = "every opened main-trace row changed by (+d, -d*c0/c1) in its first two columns: DEEP values unchanged".into();
            }
        },
        _ => {
            // A4: swap two opened rows (values only) of the constraint queries
            let qb = proof.constraint_queries.to_bytes();
            let Some((vals, paths)) = split_queries(&qb) else { return };
            let rows = positions.len();
            if rows < 2 || vals.len() % rows != 0 {
                ctx.skipped = Some("A4_single_query");
                return;
            }
            let rl = vals.len() / rows;
            let i = ch.index("A4.i", rows);
            let mut j = ch.index("A4.j", rows - 1);
            if j >= i {
                j += 1;
            }
            let mut nv = vals.clone();
            nv[i * rl..(i + 1) * rl].copy_from_slice(&vals[j * rl..(j + 1) * rl]);
            nv[j * rl..(j + 1) * rl].copy_from_slice(&vals[i * rl..(i + 1) * rl]);
            if nv == vals {
                ctx.skipped = Some("A4_rows_identical");
                return;
            }
            match Queries::read_from_bytes(&join_queries(&nv, &paths)) {
                Ok(q) => p2.constraint_queries = q,
                Err(_) => return,
            }
            ctx.fault("A4_opened_rows_swapped");
            what = format!("opened constraint rows {i} and {j} swapped");
        },
    }
    if p2 == proof {
        ctx.skipped = Some("substitution_was_identity");
        return;
    }
    // deliver through bytes, as a real man in the middle would
    let bytes = p2.to_bytes();
    let v2 = match simcore::guard(|| Proof::from_bytes(&bytes)) {
        Ok(Ok(p)) => verify_with::<B, H, RecordingCoin<H>>(p, case.inputs.clone(), &min_sec0()),
        Ok(Err(_)) => VerifyOutcome::Reject("parse".into()),
        Err(p) => VerifyOutcome::Panic(p),
    };
    coin::clear_log();
    ctx.event_with("mitm", simcore::rng::fnv1a(format!("{what}{}", v2.short()).as_bytes()), || format!("{what} -> {}", v2.short()));
    if v2.accepted() {
        let k = ["A1-remainder-plus-vanishing", "A2-constraint-openings-deep-kernel", "A3-trace-openings-deep-kernel", "A4-opened-rows-swapped"][strategy];
        ctx.violation(
            format!("C03/adaptive/modified-proof-accepted {k}"),
            format!("the verifier accepted a proof whose content differs from the accepted original but agrees with it on everything that is checked at the queried positions: {what}; {}", ctxt()),
        );
    }
}

