//! Static dispatch over (base field, hash function).

use crypto::hashers::{Blake3_192, Blake3_256, Rp62_248, Rp64_256, RpJive64_256, Sha3_256};
use crypto::ElementHasher;
use math::fields::{f128, f62, f64};
use simcore::Chooser;

use crate::proto::SimField;

#[derive(Clone, Copy, Debug, PartialEq, Eq)]
pub enum FieldId {
    F62,
    F64,
    F128,
}

#[derive(Clone, Copy, Debug, PartialEq, Eq)]
pub enum HasherId {
    Blake3_192,
    Blake3_256,
    Sha3_256,
    Rp62_248,
    Rp64_256,
    RpJive64_256,
}

pub type Cfg = (FieldId, HasherId);

/// all 12 admissible (field, hasher) pairs; index 0 is the cheapest
pub const CONFIGS: [Cfg; 12] = [
    (FieldId::F64, HasherId::Blake3_256),
    (FieldId::F128, HasherId::Blake3_256),
    (FieldId::F62, HasherId::Blake3_256),
    (FieldId::F64, HasherId::Blake3_192),
    (FieldId::F128, HasherId::Blake3_192),
    (FieldId::F62, HasherId::Blake3_192),
    (FieldId::F64, HasherId::Sha3_256),
    (FieldId::F128, HasherId::Sha3_256),
    (FieldId::F62, HasherId::Sha3_256),
    (FieldId::F62, HasherId::Rp62_248),
    (FieldId::F64, HasherId::Rp64_256),
    (FieldId::F64, HasherId::RpJive64_256),
];

pub fn gen_cfg(ch: &mut Chooser, allow_rescue: bool) -> Cfg {
    if allow_rescue {
        CONFIGS[ch.weighted("cfg", &[4, 4, 4, 2, 2, 2, 2, 2, 2, 1, 1, 1])]
    } else {
        CONFIGS[ch.weighted("cfg", &[4, 4, 4, 2, 2, 2, 2, 2, 2])]
    }
}

pub fn is_rescue(cfg: Cfg) -> bool {
    matches!(cfg.1, HasherId::Rp62_248 | HasherId::Rp64_256 | HasherId::RpJive64_256)
}

pub trait Job {
    type Out;
    fn run<B: SimField, H: ElementHasher<BaseField = B> + Send + Sync + 'static>(self) -> Self::Out;
}

pub fn dispatch<J: Job>(cfg: Cfg, job: J) -> J::Out {
    use FieldId::*;
    use HasherId as Hs;
    match cfg {
        (F62, Hs::Blake3_192) => job.run::<f62::BaseElement, Blake3_192<f62::BaseElement>>(),
        (F62, Hs::Blake3_256) => job.run::<f62::BaseElement, Blake3_256<f62::BaseElement>>(),
        (F62, Hs::Sha3_256) => job.run::<f62::BaseElement, Sha3_256<f62::BaseElement>>(),
        (F62, Hs::Rp62_248) => job.run::<f62::BaseElement, Rp62_248>(),
        (F64, Hs::Blake3_192) => job.run::<f64::BaseElement, Blake3_192<f64::BaseElement>>(),
        (F64, Hs::Blake3_256) => job.run::<f64::BaseElement, Blake3_256<f64::BaseElement>>(),
        (F64, Hs::Sha3_256) => job.run::<f64::BaseElement, Sha3_256<f64::BaseElement>>(),
        (F64, Hs::Rp64_256) => job.run::<f64::BaseElement, Rp64_256>(),
        (F64, Hs::RpJive64_256) => job.run::<f64::BaseElement, RpJive64_256>(),
        (F128, Hs::Blake3_192) => job.run::<f128::BaseElement, Blake3_192<f128::BaseElement>>(),
        (F128, Hs::Blake3_256) => job.run::<f128::BaseElement, Blake3_256<f128::BaseElement>>(),
        (F128, Hs::Sha3_256) => job.run::<f128::BaseElement, Sha3_256<f128::BaseElement>>(),
        (f, h) => panic!("harness: inadmissible (field, hasher) pair {:?} {:?}", f, h),
    }
}
