//! C19 — public coin contract. The prover's and the verifier's coins are two replicas of one
//! state machine; replica A applies a history, replica B a faulted copy of it (dropped,
//! duplicated, reordered operation; flipped bit in seed / reseed data / nonce; one draw more or
//! less). Every output of both replicas is compared with a reference coin model (the documented
//! definition re-implemented over the public hasher API); replicas agree iff model states agree.

use crypto::{DefaultRandomCoin, Digest, ElementHasher, RandomCoin};
use math::fields::{CubeExtension, QuadExtension};
use math::{FieldElement, StarkField};
use simcore::{Arm, CheckSpec, Chooser, Ctx, FnArm, RunInfo};
use utils::{Deserializable, Serializable};

use crate::dispatch::*;
use crate::proto::{felt, to_u128, SimField};

#[derive(Clone, Debug, PartialEq, Eq)]
enum Op {
    Reseed(Vec<u8>),
    /// extension degree 1 / 2 / 3
    Draw(usize),
    Integers { count: usize, log_domain: u32, nonce: u64 },
    Pow(u64),
}

/// Reference coin: the documented construction, over the public hasher API only. Where the
/// hasher's `merge_with_int` has a documented equivalent in terms of `hash` / `hash_elements`
/// (all hashers but the Jive one) the model uses that equivalent, not `merge_with_int` itself.
struct ModelCoin<H: ElementHasher> {
    cfg: Cfg,
    seed: H::Digest,
    counter: u64,
    /// hash-free identity of the history that led to `seed` (seed elements, reseed data and
    /// nonces folded with the harness's own FNV): two coins *should* be in different states
    /// exactly when these differ, whatever the hasher under test makes of them
    abs: u64,
    /// reach counters: candidates refused by the rejection sampling; of those, candidates whose
    /// offending coordinate still fits the modulus' bit length (the window [M, 2^bits))
    rejected: u64,
    rejected_within_bit_length: u64,
}

fn modulus_u128<B: StarkField>() -> u128 {
    to_u128(B::ZERO - B::ONE) + 1
}

/// the base-field elements a Rescue digest consists of, unpacked from its 32 canonical bytes
fn digest_elements<B: StarkField, H: ElementHasher<BaseField = B>>(cfg: Cfg, d: &H::Digest) -> Vec<B> {
    let b = d.as_bytes();
    let w: Vec<u64> = (0..4).map(|i| u64::from_le_bytes(b[8 * i..8 * i + 8].try_into().unwrap())).collect();
    match cfg.1 {
        HasherId::Rp62_248 => {
            // 4 x 62 bits packed back to back
            let m = (1u64 << 62) - 1;
            vec![w[0] & m, ((w[0] >> 62) | (w[1] << 2)) & m, ((w[1] >> 60) | (w[2] << 4)) & m, ((w[2] >> 58) | (w[3] << 6)) & m].into_iter().map(felt::<B>).collect()
        },
        _ => w.into_iter().map(felt::<B>).collect(),
    }
}

/// hash(seed || value) by the documented equivalent; None for the Jive hasher, whose
/// compression mode has no equivalent in terms of the other public functions
fn ref_merge_with_int<B: StarkField, H: ElementHasher<BaseField = B>>(cfg: Cfg, seed: H::Digest, value: u64) -> Option<H::Digest> {
    match cfg.1 {
        HasherId::Blake3_192 | HasherId::Blake3_256 | HasherId::Sha3_256 => {
            let n = seed.to_bytes().len();
            let mut data = seed.as_bytes()[..n].to_vec();
            data.extend_from_slice(&value.to_le_bytes());
            Some(H::hash(&data))
        },
        HasherId::Rp62_248 | HasherId::Rp64_256 => {
            let m = modulus_u128::<B>();
            let mut e = digest_elements::<B, H>(cfg, &seed);
            e.push(felt::<B>((value as u128 % m) as u64));
            if value as u128 >= m {
                e.push(felt::<B>((value as u128 / m) as u64));
            }
            Some(H::hash_elements(&e))
        },
        HasherId::RpJive64_256 => None,
    }
}

fn fold(abs: u64, tag: u8, data: &[u8]) -> u64 {
    let mut v = abs.to_le_bytes().to_vec();
    v.push(tag);
    v.extend_from_slice(data);
    simcore::rng::fnv1a(&v)
}

impl<B: StarkField, H: ElementHasher<BaseField = B>> ModelCoin<H> {
    fn new(cfg: Cfg, seed: &[B]) -> Self {
        let mut abs = fold(0, b'S', &(seed.len() as u64).to_le_bytes());
        for e in seed {
            abs = fold(abs, b'e', &to_u128(*e).to_le_bytes());
        }
        ModelCoin { cfg, seed: H::hash_elements(seed), counter: 0, abs, rejected: 0, rejected_within_bit_length: 0 }
    }
    fn mwi(&self, value: u64) -> H::Digest {
        ref_merge_with_int::<B, H>(self.cfg, self.seed, value).unwrap_or_else(|| H::merge_with_int(self.seed, value))
    }
    fn next(&mut self) -> H::Digest {
        self.counter += 1;
        self.mwi(self.counter)
    }
    fn reseed(&mut self, data: H::Digest, raw: &[u8]) {
        self.seed = H::merge(&[self.seed, data]);
        self.counter = 0;
        self.abs = fold(self.abs, b'R', raw);
    }
    /// the canonical integer coordinates of the next element: the first candidate all of whose
    /// coordinates are below the modulus (no use of the field's own byte decoding)
    fn draw<E: FieldElement<BaseField = B>>(&mut self) -> Option<Vec<u128>> {
        let m = modulus_u128::<B>();
        let eb = B::ELEMENT_BYTES;
        for _ in 0..1000 {
            let v = self.next();
            let bytes = v.as_bytes();
            let coords: Vec<u128> = (0..E::EXTENSION_DEGREE)
                .map(|i| {
                    let mut buf = [0u8; 16];
                    buf[..eb].copy_from_slice(&bytes[i * eb..(i + 1) * eb]);
                    u128::from_le_bytes(buf)
                })
                .collect();
            if coords.iter().all(|c| *c < m) {
                return Some(coords);
            }
            self.rejected += 1;
            let bits = 128 - (m - 1).leading_zeros();
            if bits < 128 && coords.iter().all(|c| *c < (1u128 << bits)) {
                self.rejected_within_bit_length += 1;
            }
        }
        None
    }
    fn integers(&mut self, count: usize, domain: usize, nonce: u64) -> Option<Vec<usize>> {
        self.seed = self.mwi(nonce);
        self.counter = 0;
        self.abs = fold(self.abs, b'N', &nonce.to_le_bytes());
        let mask = (domain - 1) as u64;
        let mut out = vec![];
        for _ in 0..1000 {
            let v = self.next();
            let b: [u8; 8] = v.as_bytes()[..8].try_into().unwrap();
            out.push((u64::from_le_bytes(b) & mask) as usize);
            if out.len() == count {
                return Some(out);
            }
        }
        None
    }
    fn pow(&self, nonce: u64) -> u32 {
        let v = self.mwi(nonce);
        let b: [u8; 8] = v.as_bytes()[..8].try_into().unwrap();
        u64::from_le_bytes(b).trailing_zeros()
    }
    fn state(&self) -> (Vec<u8>, u64) {
        (self.abs.to_le_bytes().to_vec(), self.counter)
    }
}

fn coords_of<B: StarkField, E: FieldElement<BaseField = B>>(e: &E) -> Vec<u128> {
    E::slice_as_base_elements(core::slice::from_ref(e)).iter().map(|c| to_u128(*c)).collect()
}

fn elem_bytes<E: FieldElement>(e: &E) -> Vec<u8> {
    let mut b = vec![];
    e.write_into(&mut b);
    b
}

/// a drawn element must be canonical: it round-trips through its serialization, and every base
/// coordinate is below the modulus
fn canonical<E: FieldElement>(e: &E) -> bool {
    let b = elem_bytes(e);
    match E::read_from_bytes(&b) {
        Ok(e2) => e2 == *e && elem_bytes(&e2) == b && b.len() == E::ELEMENT_BYTES,
        Err(_) => false,
    }
}

struct Job19<'a> {
    ch: &'a mut Chooser,
    ctx: &'a mut Ctx,
    cfg: Cfg,
}

impl<'a> Job for Job19<'a> {
    type Out = ();
    fn run<B: SimField, H: ElementHasher<BaseField = B> + Send + Sync + 'static>(self) {
        run::<B, H>(self.ch, self.ctx, self.cfg)
    }
}

fn digest_from<H: ElementHasher>(bytes: &[u8]) -> H::Digest {
    H::hash(bytes)
}

/// applies `ops` to a real coin and to the model, comparing every output; returns the list of
/// outputs (for cross-replica comparison) and the model state after each op
#[allow(clippy::type_complexity)]
fn apply<B: SimField, H: ElementHasher<BaseField = B>>(
    ctx: &mut Ctx,
    cfg: Cfg,
    who: &str,
    seed: &[B],
    ops: &[Op],
) -> Option<Vec<(Vec<u8>, (Vec<u8>, u64))>> {
    let mut real = DefaultRandomCoin::<H>::new(seed);
    let mut model = ModelCoin::<H>::new(cfg, seed);
    let mut outs = vec![];
    for (i, op) in ops.iter().enumerate() {
        let out: Vec<u8> = match op {
            Op::Reseed(d) => {
                let dg = digest_from::<H>(d);
                real.reseed(dg);
                model.reseed(dg, d);
                vec![]
            },
            Op::Draw(deg) => {
                fn one<B: SimField, H: ElementHasher<BaseField = B>, E: FieldElement<BaseField = B>>(
                    ctx: &mut Ctx,
                    cfg: Cfg,
                    who: &str,
                    i: usize,
                    real: &mut DefaultRandomCoin<H>,
                    model: &mut ModelCoin<H>,
                ) -> Option<Vec<u8>> {
                    let r = simcore::guard(|| real.draw::<E>());
                    let m = model.draw::<E>();
                    match (r, m) {
                        (Ok(Ok(a)), Some(b)) => {
                            if coords_of::<B, E>(&a) != b {
                                ctx.violation(
                                    format!("C19/draw-differs-from-definition degree{}", E::EXTENSION_DEGREE),
                                    format!("{who} op #{i}: draw::<degree {}> returned coordinates {:?}, the documented construction (first candidate with every coordinate below the modulus) gives {:?}; {:?}", E::EXTENSION_DEGREE, coords_of::<B, E>(&a), b, cfg),
                                );
                                return None;
                            }
                            if !canonical(&a) {
                                ctx.violation(format!("C19/drawn-element-not-canonical degree{}", E::EXTENSION_DEGREE), format!("{who} op #{i}: drawn element does not round-trip through its canonical bytes; {:?}", cfg));
                                return None;
                            }
                            Some(elem_bytes(&a))
                        },
                        (Ok(Err(_)), None) => {
                            // both exhausted the documented 1000 attempts: outside the claim
                            ctx.probe("draw_exhausted_1000_attempts");
                            Some(vec![0xEE])
                        },
                        (Err(p), _) => {
                            ctx.violation(format!("C19/draw-panic {}", p.signature()), format!("{who} op #{i}: {}:{} {}; {:?}", p.file, p.line, p.msg, cfg));
                            None
                        },
                        (a, b) => {
                            ctx.violation(
                                format!("C19/draw-success-differs-from-definition degree{}", E::EXTENSION_DEGREE),
                                format!("{who} op #{i}: real coin {:?}, model {:?}; {:?}", a.map(|r| r.is_ok()), b.is_some(), cfg),
                            );
                            None
                        },
                    }
                }
                let r = match deg {
                    2 if QuadExtension::<B>::is_supported() => one::<B, H, QuadExtension<B>>(ctx, cfg, who, i, &mut real, &mut model),
                    3 if CubeExtension::<B>::is_supported() => one::<B, H, CubeExtension<B>>(ctx, cfg, who, i, &mut real, &mut model),
                    _ => one::<B, H, B>(ctx, cfg, who, i, &mut real, &mut model),
                };
                r?
            },
            Op::Integers { count, log_domain, nonce } => {
                let domain = 1usize << log_domain;
                let r = simcore::guard(|| real.draw_integers(*count, domain, *nonce));
                let m = model.integers(*count, domain, *nonce);
                match (r, m) {
                    (Ok(Ok(a)), Some(b)) => {
                        if a.len() != *count {
                            ctx.violation("C19/wrong-number-of-integers", format!("{who} op #{i}: asked for {count} integers, got {}; {:?}", a.len(), cfg));
                            return None;
                        }
                        if a.iter().any(|v| *v >= domain) {
                            ctx.violation("C19/integer-out-of-domain", format!("{who} op #{i}: an integer >= {domain} was returned; {:?}", cfg));
                            return None;
                        }
                        if a != b {
                            ctx.violation(
                                "C19/integers-differ-from-definition",
                                format!("{who} op #{i}: draw_integers({count}, {domain}, nonce {nonce}) = {:?}.., the documented construction gives {:?}..; {:?}", &a[..a.len().min(4)], &b[..b.len().min(4)], cfg),
                            );
                            return None;
                        }
                        a.iter().flat_map(|v| (*v as u32).to_le_bytes()).collect()
                    },
                    (Err(p), _) => {
                        ctx.violation(format!("C19/draw-integers-panic {}", p.signature()), format!("{who} op #{i}: {}:{} {}; {:?}", p.file, p.line, p.msg, cfg));
                        return None;
                    },
                    (a, b) => {
                        ctx.violation("C19/integers-success-differs-from-definition", format!("{who} op #{i}: real {:?} model {:?}; {:?}", a.map(|r| r.is_ok()), b.is_some(), cfg));
                        return None;
                    },
                }
            },
            Op::Pow(nonce) => {
                let a = real.check_leading_zeros(*nonce);
                let b = model.pow(*nonce);
                if a != b {
                    ctx.violation("C19/pow-measure-differs-from-definition", format!("{who} op #{i}: check_leading_zeros({nonce}) = {a}, the documented measure is {b}; {:?}", cfg));
                    return None;
                }
                a.to_le_bytes().to_vec()
            },
        };
        ctx.event_with("op", simcore::rng::fnv1a(&out) ^ i as u64, || format!("{who} {:?} -> {:02x?}", op, &out[..out.len().min(8)]));
        outs.push((out, model.state()));
        match op {
            Op::Draw(d) => ctx.probe(["draw_base_field", "draw_base_field", "draw_quadratic_extension", "draw_cubic_extension"][(*d as usize).min(3)]),
            Op::Integers { count, log_domain, nonce } => {
                if *nonce >= 1 << 32 {
                    ctx.probe("nonce_at_least_2_pow_32");
                }
                if (*count as u64) > (1u64 << log_domain) {
                    ctx.probe("more_integers_than_domain_points");
                }
            },
            _ => {},
        }
    }
    ctx.probe_n("candidates_rejected_by_sampling", model.rejected);
    ctx.probe_n("candidates_rejected_within_modulus_bit_length", model.rejected_within_bit_length);
    Some(outs)
}

/// k * M + r for a small r and 1 <= k <= (2^64 - 1 - r) / M: integers that the Rescue hashers
/// have to split into two field elements (M = base field modulus, when it fits into 64 bits)
fn multiple_of_modulus(ch: &mut Chooser, m64: Option<u64>) -> u64 {
    let r = ch.pick("op.nonce.r", 1000);
    match m64 {
        Some(m) => {
            let kmax = (u64::MAX - r) / m;
            let k = 1 + ch.pick("op.nonce.k", kmax.max(1));
            k.min(kmax) * m + r
        },
        None => u64::MAX - r,
    }
}

fn gen_op(ch: &mut Chooser, m64: Option<u64>) -> Op {
    match ch.weighted("op.kind", &[3, 6, 2, 2]) {
        0 => {
            let len = 1 + ch.index("op.reseedlen", 40);
            let salt = ch.u64("op.salt");
            let mut r = simcore::rng::Xoshiro::from_u64(salt);
            Op::Reseed((0..len).map(|_| r.next() as u8).collect())
        },
        1 => Op::Draw(1 + ch.weighted("op.degree", &[3, 2, 2])),
        2 => {
            let log_domain = ch.biased("op.logdomain", 1, 32, &[1, 2, 3, 8, 10, 16, 31, 32]) as u32;
            let max = ((1u64 << log_domain) - 1).min(255);
            let count = ch.biased("op.count", 1, max.max(1), &[1, 2, 255, max]) as usize;
            let nonce = match ch.weighted("op.noncekind", &[2, 2, 2, 1, 2]) {
                0 => 0,
                1 => 1 + ch.pick("op.nonce", 1000),
                2 => ch.u64("op.nonce64"),
                3 => (1u64 << 32) + ch.pick("op.nonce", 1000),
                _ => multiple_of_modulus(ch, m64),
            };
            Op::Integers { count: count.min(((1u64 << log_domain) - 1) as usize).max(1), log_domain, nonce }
        },
        _ => Op::Pow(match ch.weighted("op.powkind", &[2, 2, 1, 2]) {
            0 => ch.pick("op.pownonce", 1 << 16),
            1 => ch.u64("op.pownonce64"),
            2 => (1u64 << 32) + ch.pick("op.pownonce", 1 << 16),
            _ => multiple_of_modulus(ch, m64),
        }),
    }
}

fn run<B: SimField, H: ElementHasher<BaseField = B> + Send + Sync + 'static>(ch: &mut Chooser, ctx: &mut Ctx, cfg: Cfg) {
    let nseed = ch.index("seed.len", 6);
    let salt = ch.u64("seed.salt");
    let mut r = simcore::rng::Xoshiro::from_u64(salt);
    let seed: Vec<B> = (0..nseed).map(|_| felt::<B>(r.next() >> 2)).collect();
    let nops = 1 + ch.index("ops.count", 30);
    let m = modulus_u128::<B>();
    let m64 = if m <= u64::MAX as u128 { Some(m as u64) } else { None };
    let mut ops: Vec<Op> = (0..nops).map(|_| gen_op(ch, m64)).collect();
    // a draw_integers with domain 2 needs count 1
    ctx.event_with("history", simcore::rng::fnv1a(format!("{:?}{:?}", cfg, ops).as_bytes()), || format!("{:?}: seed of {nseed} elements, {nops} operations", cfg));

    // replica B: the same history with one fault
    let mut ops_b = ops.clone();
    let mut seed_b = seed.clone();
    let fault = ch.weighted("fault.kind", &[2, 2, 2, 2, 2, 2, 2, 2, 2]);
    let at = ch.index("fault.at", nops);
    let fname = match fault {
        0 => "none",
        1 => {
            ops_b.remove(at);
            "drop_operation"
        },
        2 => {
            let o = ops_b[at].clone();
            ops_b.insert(at, o);
            "duplicate_operation"
        },
        3 => {
            if at + 1 < ops_b.len() {
                ops_b.swap(at, at + 1);
            }
            "swap_adjacent_operations"
        },
        4 => {
            if seed_b.is_empty() {
                seed_b.push(B::ONE);
            } else {
                let k = ch.index("fault.seedidx", seed_b.len());
                seed_b[k] += B::ONE;
            }
            "flip_seed"
        },
        5 => {
            // flip a bit of the first reseed datum / nonce at or after `at`
            let mut done = false;
            for o in ops_b.iter_mut().skip(at) {
                match o {
                    Op::Reseed(d) => {
                        let k = ch.index("fault.bit", d.len() * 8);
                        d[k / 8] ^= 1 << (k % 8);
                        done = true;
                    },
                    Op::Integers { nonce, .. } => {
                        *nonce ^= 1 << ch.index("fault.noncebit", 64);
                        done = true;
                    },
                    _ => {},
                }
                if done {
                    break;
                }
            }
            if done {
                "flip_reseed_data_or_nonce"
            } else {
                "none"
            }
        },
        6 => {
            ops_b.insert(at, Op::Draw(1));
            "one_extra_draw"
        },
        8 => {
            // two nonces that are congruent modulo the base field: k1 * M + r and k2 * M + r
            match (m64, ops.iter().skip(at).position(|o| matches!(o, Op::Integers { .. }))) {
                (Some(m), Some(off)) => {
                    let r = ch.pick("fault.alias.r", 1000);
                    let kmax = (u64::MAX - r) / m;
                    let k1 = ch.pick("fault.alias.k1", kmax + 1);
                    let k2 = (k1 + 1 + ch.pick("fault.alias.k2", kmax)) % (kmax + 1);
                    if let (Op::Integers { nonce: na, .. }, Op::Integers { nonce: nb, .. }) = (&mut ops[at + off], &mut ops_b[at + off]) {
                        *na = k1 * m + r;
                        *nb = k2 * m + r;
                    }
                    "nonces_congruent_modulo_the_field"
                },
                _ => "none",
            }
        },
        _ => {
            if let Some(k) = ops_b.iter().position(|o| matches!(o, Op::Draw(_))) {
                ops_b.remove(k);
                "one_draw_fewer"
            } else {
                "none"
            }
        },
    };
    if fname != "none" {
        ctx.fault(fname);
    } else {
        ctx.nontrivial = true;
    }
    let Some(outs_a) = apply::<B, H>(ctx, cfg, "replica A", &seed, &ops) else { return };
    let Some(outs_b) = apply::<B, H>(ctx, cfg, "replica B", &seed_b, &ops_b) else { return };

    // equal histories give equal outputs
    if ops == ops_b && seed == seed_b && outs_a != outs_b {
        ctx.violation("C19/equal-histories-different-outputs", format!("two coins driven with the same history disagree; {:?}", cfg));
        return;
    }
    // any difference in the model state changes the next drawn field element: append one base
    // field draw to both and compare
    let mut ta = ops.clone();
    ta.push(Op::Draw(1));
    let mut tb = ops_b.clone();
    tb.push(Op::Draw(1));
    let (Some(fa), Some(fb)) = (apply::<B, H>(ctx, cfg, "replica A+", &seed, &ta), apply::<B, H>(ctx, cfg, "replica B+", &seed_b, &tb)) else { return };
    let init_a = ModelCoin::<H>::new(cfg, &seed).state();
    let init_b = ModelCoin::<H>::new(cfg, &seed_b).state();
    let sa = outs_a.last().map(|x| x.1.clone()).unwrap_or(init_a);
    let sb = outs_b.last().map(|x| x.1.clone()).unwrap_or(init_b);
    let (da, db) = (&fa.last().unwrap().0, &fb.last().unwrap().0);
    // When only the counters differ, the 62-bit field's rejection sampling (about 75% of the
    // candidates are rejected) can legitimately lead both replicas to the same next accepted
    // candidate; that is a property of the documented construction, not of the implementation.
    let only_counter_differs = sa.0 == sb.0 && sa.1 != sb.1;
    let rejection_prone = B::MODULUS_BITS < 64;
    if sa != sb && da == db && da != &vec![0xEE] && !(only_counter_differs && rejection_prone) {
        ctx.violation(
            format!("C19/different-histories-same-next-output {fname}"),
            format!("after '{fname}' the two replicas are in different states by the documented construction, yet their next drawn element is the same; {:?}", cfg),
        );
    }
    if sa == sb && da != db {
        ctx.violation(format!("C19/same-state-different-next-output {fname}"), format!("{:?}", cfg));
    }
}


// SCRIPTED HASH OUTPUTS
// ------------------------------------------------------------------------------------------------
// The hash function is the coin's only source of "randomness", and the hasher is a type parameter:
// a seam. Here the simulator owns it: `merge_with_int` answers from a script, so that candidates
// whose coordinates sit exactly at, just above and just below the modulus - events of probability
// 2^-64 .. 2^-82 with a real hasher over the 64- and 128-bit fields - occur on purpose. A draw
// must return the first scripted candidate ALL of whose coordinates are below the modulus,
// canonically encoded.

thread_local! {
    static SCRIPT: std::cell::RefCell<std::collections::VecDeque<[u8; 32]>> = const { std::cell::RefCell::new(std::collections::VecDeque::new()) };
}

struct ScriptHasher<B>(std::marker::PhantomData<B>);
type Inner<B> = crypto::hashers::Blake3_256<B>;

impl<B: StarkField> crypto::Hasher for ScriptHasher<B> {
    type Digest = <Inner<B> as crypto::Hasher>::Digest;
    const COLLISION_RESISTANCE: u32 = 128;
    fn hash(bytes: &[u8]) -> Self::Digest {
        Inner::<B>::hash(bytes)
    }
    fn merge(values: &[Self::Digest; 2]) -> Self::Digest {
        Inner::<B>::merge(values)
    }
    fn merge_with_int(seed: Self::Digest, value: u64) -> Self::Digest {
        match SCRIPT.with(|s| s.borrow_mut().pop_front()) {
            Some(b) => Self::Digest::read_from_bytes(&b).expect("harness: scripted digest"),
            None => Inner::<B>::merge_with_int(seed, value),
        }
    }
}

impl<B: StarkField> ElementHasher for ScriptHasher<B> {
    type BaseField = B;
    fn hash_elements<E: FieldElement<BaseField = B>>(elements: &[E]) -> Self::Digest {
        Inner::<B>::hash_elements(elements)
    }
}

fn scripted_of<B: StarkField, E: FieldElement<BaseField = B>>(ch: &mut Chooser, ctx: &mut Ctx, name: &'static str) {
    let m = modulus_u128::<B>();
    let w = B::ELEMENT_BYTES; // 8 or 16
    let deg = E::EXTENSION_DEGREE;
    let cap: u128 = if w == 16 { u128::MAX } else { u64::MAX as u128 };
    let salt = ch.u64("script.salt");
    let mut rng = simcore::rng::Xoshiro::from_u64(salt);
    let n = 1 + ch.index("script.len", 6);
    let mut script: Vec<[u8; 32]> = vec![];
    let mut expected: Option<Vec<u128>> = None;
    let mut refused = 0u64;
    for k in 0..n {
        let last = k == n - 1;
        let mut d = [0u8; 32];
        for b in d.iter_mut() {
            *b = rng.next() as u8;
        }
        let mut coords = vec![];
        for j in 0..deg {
            // the last candidate is always a valid one, so that the script decides the draw
            let kind = if last { ch.index("script.valid", 4) } else { ch.weighted("script.coord", &[3, 2, 2, 1, 1, 2]) };
            let v: u128 = match kind {
                0 => (((rng.next() as u128) << 64) | rng.next() as u128) % m,
                1 => m - 1,
                2 => 0,
                3 => (((rng.next() as u128) << 64) | rng.next() as u128) % m,
                // invalid coordinates: the modulus itself, just above it, the largest value of the width
                4 => m,
                5 => m.saturating_add(1 + rng.below(5) as u128).min(cap),
                _ => cap,
            };
            let v = if !last && kind == 3 { cap } else { v };
            coords.push(v);
            if j * w + w <= 32 {
                d[j * w..j * w + w].copy_from_slice(&v.to_le_bytes()[..w]);
            }
        }
        if deg * w > 32 {
            // (48-byte elements do not fit a 32-byte digest: from_random_bytes gets 32 bytes and must refuse)
            ctx.skipped = Some("element_wider_than_digest");
            return;
        }
        let valid = coords.iter().all(|c| *c < m);
        if valid && expected.is_none() {
            expected = Some(coords.clone());
        } else if !valid && expected.is_none() {
            refused += 1;
        }
        script.push(d);
    }
    ctx.probe_n("scripted_candidates_that_must_be_refused", refused);
    ctx.nontrivial = true;
    ctx.event_with("script", salt ^ n as u64, || format!("{name}: {n} scripted hash outputs, {refused} to refuse before the first valid one"));
    let want = expected.expect("harness: the last scripted candidate is valid");
    SCRIPT.with(|s| {
        let mut s = s.borrow_mut();
        s.clear();
        s.extend(script.iter().copied());
    });
    let r = simcore::guard(|| {
        let mut coin = DefaultRandomCoin::<ScriptHasher<B>>::new(&[B::ONE]);
        coin.draw::<E>()
    });
    SCRIPT.with(|s| s.borrow_mut().clear());
    match r {
        Err(p) => ctx.violation(format!("C19/scripted/draw-panic {}", p.signature()), format!("{name}: {}:{} {}", p.file, p.line, p.msg)),
        Ok(Err(e)) => ctx.violation(format!("C19/scripted/draw-failed {name}"), format!("draw failed with {e} although candidate {} of the script is valid", refused + 1)),
        Ok(Ok(e)) => {
            let got = coords_of::<B, E>(&e);
            if !canonical(&e) || got.iter().any(|c| *c >= m) {
                ctx.violation(format!("C19/scripted/non-canonical-element-drawn {name}"), format!("the coin returned an element with a coordinate at or above the modulus: {:?} (modulus {m})", got));
            } else if got != want {
                ctx.violation(
                    format!("C19/scripted/draw-differs-from-definition {name}"),
                    format!("drawn {:?}, the first scripted candidate all of whose coordinates are below the modulus is {:?} (after {refused} candidates that must be refused)", got, want),
                );
            }
        },
    }
}

fn scripted_scenario(_info: &RunInfo, ch: &mut Chooser, ctx: &mut Ctx) {
    type F62 = math::fields::f62::BaseElement;
    type F64 = math::fields::f64::BaseElement;
    type F128 = math::fields::f128::BaseElement;
    match ch.index("script.type", 7) {
        0 => scripted_of::<F62, F62>(ch, ctx, "f62"),
        1 => scripted_of::<F62, QuadExtension<F62>>(ch, ctx, "quad<f62>"),
        2 => scripted_of::<F62, CubeExtension<F62>>(ch, ctx, "cube<f62>"),
        3 => scripted_of::<F64, F64>(ch, ctx, "f64"),
        4 => scripted_of::<F64, QuadExtension<F64>>(ch, ctx, "quad<f64>"),
        5 => scripted_of::<F64, CubeExtension<F64>>(ch, ctx, "cube<f64>"),
        _ => {
            if ch.chance("script.f128quad?", 1, 2) {
                scripted_of::<F128, QuadExtension<F128>>(ch, ctx, "quad<f128>")
            } else {
                scripted_of::<F128, F128>(ch, ctx, "f128")
            }
        },
    }
}

fn scenario(_info: &RunInfo, ch: &mut Chooser, ctx: &mut Ctx) {
    let cfg = CONFIGS[ch.index("cfg", CONFIGS.len())];
    dispatch(cfg, Job19 { ch, ctx, cfg });
}

pub fn spec() -> CheckSpec {
    let arms: Vec<Box<dyn Arm>> = vec![
        Box::new(FnArm { name: "two-replicas", quick: 60_000, thorough: 3_000_000, f: scenario }),
        Box::new(FnArm { name: "scripted-hash-outputs", quick: 40_000, thorough: 1_000_000, f: scripted_scenario }),
    ];
    CheckSpec {
        id: "C19",
        level: "exploration",
        build: "serial",
        rule: "one run = one (field, hasher) pair out of the twelve admissible ones x a seed of 0..5 elements x a history of 1..30 operations from {reseed(data), draw base / quadratic / cubic element, draw_integers(count 1..255, domain 2^1..2^32, nonce 0 / small / 64-bit / above 2^32), check_leading_zeros(nonce)} applied to replica A, and the same history with one injected fault (dropped / duplicated / swapped operation, flipped seed, flipped bit of reseed data or nonce, one draw more / fewer) applied to replica B; every output of both replicas is compared with a reference coin model; afterwards one more field element is drawn from both. Arm scripted-hash-outputs: the hasher is a type parameter of the coin, so the simulator supplies one whose merge_with_int answers from a script of 1..6 outputs with coordinates exactly at, just above and just below the modulus (events of probability 2^-64 .. 2^-82 with a real hasher); a draw must return the first scripted candidate all of whose coordinates are below the modulus, canonically. Non-trivial = a fault fired or both histories are equal on purpose; distinct = distinct event-log digests.".into(),
        interleaving_measure: "distinct (history, fault kind, fault position) pairs of replica histories".into(),
        real: vec!["crypto::DefaultRandomCoin", "Randomizable::from_random_bytes of the three base fields and their extensions", "all six hashers (merge, merge_with_int, hash_elements)"],
        stub: vec!["nothing; the reference coin model is the oracle"],
        assumptions: vec![
            "reference coin = the documented construction: seed' = merge(seed, data) with counter reset; value i = merge_with_int(seed, i), first ELEMENT_BYTES bytes through from_random_bytes with rejection (1000 attempts); integers from the low 8 bytes masked to the domain after seed = merge_with_int(seed, nonce); proof-of-work measure = trailing zeros of the first 8 bytes of merge_with_int(seed, nonce)",
            "'differs' is asserted only on field elements (>= 62 bits), never on small-domain integers",
        ],
        arms,
    }
}
