//! C14 — multi-threaded results are bit-identical to single-threaded ones.
//! The conc build (rayon replaced by SimRayon) evaluates case k under a simulated pool size and a
//! taped schedule; the serial build (no `concurrent` feature), running as a child process,
//! evaluates the same case and supplies the golden digests.

use std::cell::RefCell;
use std::io::{BufRead, BufReader, Write};
use std::process::{Child, ChildStdin, ChildStdout, Command, Stdio};

use crypto::hashers::{Blake3_256, Rp64_256, Sha3_256};
use crypto::{DefaultRandomCoin, ElementHasher, MerkleTree};
use math::fields::{f128, f62, f64, CubeExtension, QuadExtension};
use math::{fft, FieldElement, StarkField};
use prover::matrix::{ColMatrix, RowMatrix};
use prover::StarkDomain;
use simcore::{Arm, CheckSpec, Chooser, Ctx, RunInfo, Tier};
use utils::Serializable;

use crate::dispatch::*;
use crate::pipe::*;
use crate::proto::*;

type Out = Vec<(String, u64)>;

/// digest of the canonical serialization (NOT of the in-memory representation: the 62-bit
/// field keeps residues un-normalised, so equal elements may differ in memory)
fn h_elems<E: FieldElement>(v: &[E]) -> u64 {
    let mut buf = Vec::with_capacity(v.len() * E::ELEMENT_BYTES);
    for e in v {
        e.write_into(&mut buf);
    }
    simcore::rng::fnv1a(&buf)
}

fn rand_elems<E: FieldElement>(rng: &mut simcore::rng::Xoshiro, n: usize) -> Vec<E> {
    (0..n)
        .map(|_| {
            let mut e = E::ZERO;
            // fill every base coordinate
            let mut acc = E::ONE;
            for _ in 0..E::EXTENSION_DEGREE {
                e += acc * E::from(felt::<E::BaseField>(rng.next() >> 2));
                acc *= E::from(felt::<E::BaseField>(rng.next() >> 2));
            }
            e
        })
        .collect()
}

// WORKLOAD
// ------------------------------------------------------------------------------------------------

#[derive(Clone, Debug)]
pub enum Work {
    Fft { elem: usize, op: usize, log_n: u32, blowup: usize, salt: u64 },
    Util { elem: usize, op: usize, n: usize, salt: u64 },
    /// `extra` leaves beyond 2^log_leaves: a count that is not a power of two must be refused by
    /// both builds alike
    Merkle { hasher: usize, log_leaves: u32, extra: usize, salt: u64 },
    Fri { elem: usize, op: usize, folding: usize, log_n: u32, salt: u64 },
    Matrix { elem: usize, op: usize, cols: usize, log_rows: u32, blowup: usize, hasher: usize, salt: u64 },
    /// full proof of a protocol-sim case; the tape values that generate it follow
    Prove,
}

pub fn gen_work(ch: &mut Chooser, thorough: bool) -> Work {
    let kind = ch.weighted("w.kind", &[4, 3, 3, 3, 5, 4]);
    let salt = ch.u64("w.salt");
    match kind {
        0 => Work::Fft {
            elem: ch.index("w.elem", 5),
            op: ch.index("w.fftop", 6),
            log_n: *ch.choose("w.logn", &[10u32, 9, 11, 12]),
            blowup: *ch.choose("w.blowup", &[2usize, 4, 8]),
            salt,
        },
        1 => Work::Util {
            elem: ch.index("w.elem", 5),
            op: ch.index("w.utilop", 5),
            // lengths on both sides of the 1024-element threshold, and lengths that the number of
            // batches (the pool size rounded up to a power of two) does not divide while every
            // batch still has 1024 elements or more: the last batch is then a short one
            n: *ch.choose("w.n", &[1024usize, 1000, 1023, 1025, 2048, 4096, 5000, 8192, 2049, 2051, 4097, 4098, 4102, 6151, 8191, 8193, 8196, 16385, 16390, 33000, 65537, 66051]),
            salt,
        },
        2 => Work::Merkle {
            hasher: ch.index("w.hasher", 3),
            log_leaves: *ch.choose("w.logleaves", &[11u32, 10, 12, if thorough { 13 } else { 11 }]),
            extra: *ch.choose("w.extraleaves", &[0usize, 0, 0, 0, 0, 1, 2, 476, 1023]),
            salt,
        },
        3 => Work::Fri {
            elem: ch.index("w.elem", 5),
            op: ch.index("w.friop", 2),
            folding: *ch.choose("w.folding", &[4usize, 2, 8, 16]),
            log_n: *ch.choose("w.logn", &[11u32, 10, 12, 13]),
            salt,
        },
        4 => Work::Matrix {
            elem: ch.index("w.elem", 5),
            op: ch.index("w.matop", 4),
            cols: *ch.choose("w.cols", &[8usize, 1, 7, 9, 16, 17, 64, 255]),
            log_rows: *ch.choose("w.logrows", &[5u32, 3, 4, 7, 9, 10, 11]),
            blowup: *ch.choose("w.blowup", &[4usize, 2, 8, 16]),
            hasher: ch.index("w.hasher", 3),
            salt,
        },
        _ => Work::Prove,
    }
}

macro_rules! with_elem {
    ($elem:expr, $f:ident ( $($args:expr),* )) => {
        match $elem {
            0 => $f::<f64::BaseElement, f64::BaseElement>($($args),*),
            1 => $f::<f64::BaseElement, QuadExtension<f64::BaseElement>>($($args),*),
            2 => $f::<f128::BaseElement, f128::BaseElement>($($args),*),
            3 => $f::<f62::BaseElement, f62::BaseElement>($($args),*),
            _ => $f::<f62::BaseElement, CubeExtension<f62::BaseElement>>($($args),*),
        }
    };
}

macro_rules! with_hasher {
    ($h:expr, $B:ty, $f:ident :: < $($pre:ty),* ; > ( $($args:expr),* )) => {
        match $h {
            0 => $f::<$($pre,)* Blake3_256<$B>>($($args),*),
            _ => $f::<$($pre,)* Sha3_256<$B>>($($args),*),
        }
    };
}

fn eval_fft<B: StarkField, E: FieldElement<BaseField = B>>(op: usize, log_n: u32, blowup: usize, salt: u64) -> Out {
    let n = 1usize << log_n;
    let mut rng = simcore::rng::Xoshiro::from_u64(salt);
    let mut p: Vec<E> = rand_elems(&mut rng, n);
    let tw = fft::get_twiddles::<B>(n);
    let itw = fft::get_inv_twiddles::<B>(n);
    match op {
        0 => {
            fft::evaluate_poly(&mut p, &tw);
            vec![("evaluate_poly".into(), h_elems(&p))]
        },
        1 => {
            let r = fft::evaluate_poly_with_offset(&p, &tw, B::GENERATOR, blowup);
            vec![("evaluate_poly_with_offset".into(), h_elems(&r))]
        },
        2 => {
            fft::interpolate_poly(&mut p, &itw);
            vec![("interpolate_poly".into(), h_elems(&p))]
        },
        3 => {
            fft::interpolate_poly_with_offset(&mut p, &itw, B::GENERATOR);
            vec![("interpolate_poly_with_offset".into(), h_elems(&p))]
        },
        4 => vec![("get_twiddles".into(), h_elems(&tw))],
        _ => vec![("get_inv_twiddles".into(), h_elems(&itw))],
    }
}

fn eval_util<B: StarkField, E: FieldElement<BaseField = B>>(op: usize, n: usize, salt: u64) -> Out {
    let mut rng = simcore::rng::Xoshiro::from_u64(salt);
    let mut a: Vec<E> = rand_elems(&mut rng, n);
    let b: Vec<E> = rand_elems(&mut rng, n);
    match op {
        0 => vec![("get_power_series".into(), h_elems(&math::get_power_series(a[0], n)))],
        1 => vec![("get_power_series_with_offset".into(), h_elems(&math::get_power_series_with_offset(a[0], a[1], n)))],
        2 => {
            // zeros at several positions, including batch boundaries
            for i in [0usize, 1, n / 2, n / 2 + 1, n - 1, 127, 128, 255, 256, 511, 512] {
                if i < n {
                    a[i] = E::ZERO;
                }
            }
            vec![("batch_inversion".into(), h_elems(&math::batch_inversion(&a)))]
        },
        3 => {
            math::add_in_place(&mut a, &b);
            vec![("add_in_place".into(), h_elems(&a))]
        },
        _ => {
            let bb: Vec<B> = rand_elems(&mut rng, n);
            math::mul_acc(&mut a, &bb, b[0]);
            vec![("mul_acc".into(), h_elems(&a))]
        },
    }
}

fn merkle_out<H: crypto::Hasher>(leaves: Vec<H::Digest>) -> Out {
    let t = match MerkleTree::<H>::new(leaves) {
        Ok(t) => t,
        // a refusal is a result like any other: both builds must give the same one
        Err(e) => return vec![("merkle_tree_refused".into(), simcore::rng::fnv1a(format!("{e}").as_bytes()))],
    };
    let root = simcore::rng::fnv1a(&t.root().to_bytes());
    // a batch opening exercises the inner nodes as well
    let idx: Vec<usize> = (0..t.leaves().len()).step_by(37).take(40).collect();
    let bp = t.prove_batch(&idx).expect("harness: prove_batch");
    let mut nb = vec![];
    for v in &bp.nodes {
        for d in v {
            d.write_into(&mut nb);
        }
    }
    vec![("merkle_root".into(), root), ("merkle_inner_nodes".into(), simcore::rng::fnv1a(&nb))]
}

fn eval_merkle(hasher: usize, log_leaves: u32, extra: usize, salt: u64) -> Out {
    let n = (1usize << log_leaves) + extra;
    let mut rng = simcore::rng::Xoshiro::from_u64(salt);
    type B = f64::BaseElement;
    let data: Vec<B> = rand_elems(&mut rng, n);
    match hasher {
        0 => merkle_out::<Blake3_256<B>>(data.iter().map(|e| <Blake3_256<B> as ElementHasher>::hash_elements(&[*e])).collect()),
        1 => merkle_out::<Sha3_256<B>>(data.iter().map(|e| <Sha3_256<B> as ElementHasher>::hash_elements(&[*e])).collect()),
        _ => merkle_out::<Rp64_256>(data.iter().map(|e| <Rp64_256 as ElementHasher>::hash_elements(&[*e])).collect()),
    }
}

fn eval_fri<B: StarkField, E: FieldElement<BaseField = B>>(op: usize, folding: usize, log_n: u32, salt: u64) -> Out {
    fn go<B: StarkField, E: FieldElement<BaseField = B>, const N: usize>(op: usize, v: &[E], alpha: E) -> Out {
        let t: Vec<[E; N]> = utils::transpose_slice(v);
        if op == 0 {
            let hs = fri::utils::hash_values::<Blake3_256<B>, E, N>(&t);
            let mut b = vec![];
            for d in &hs {
                d.write_into(&mut b);
            }
            vec![("fri_hash_values".into(), simcore::rng::fnv1a(&b))]
        } else {
            vec![("fri_apply_drp".into(), h_elems(&fri::folding::apply_drp(&t, B::GENERATOR, alpha)))]
        }
    }
    let n = 1usize << log_n;
    let mut rng = simcore::rng::Xoshiro::from_u64(salt);
    let v: Vec<E> = rand_elems(&mut rng, n);
    let alpha: E = rand_elems(&mut rng, 1)[0];
    match folding {
        2 => go::<B, E, 2>(op, &v, alpha),
        4 => go::<B, E, 4>(op, &v, alpha),
        8 => go::<B, E, 8>(op, &v, alpha),
        _ => go::<B, E, 16>(op, &v, alpha),
    }
}

fn commit_digest<B: StarkField, E: FieldElement<BaseField = B>, H: ElementHasher<BaseField = B>>(m: &RowMatrix<E>) -> u64 {
    simcore::rng::fnv1a(&m.commit_to_rows::<H>().root().to_bytes())
}

fn eval_matrix<B: StarkField, E: FieldElement<BaseField = B>>(op: usize, cols: usize, log_rows: u32, blowup: usize, hasher: usize, salt: u64) -> Out {
    let rows = 1usize << log_rows;
    let mut rng = simcore::rng::Xoshiro::from_u64(salt);
    // keep the total size bounded
    let cols = if rows * blowup * cols > (1 << 19) { cols.min(8) } else { cols };
    let columns: Vec<Vec<E>> = (0..cols).map(|_| rand_elems(&mut rng, rows)).collect();
    let m = ColMatrix::new(columns);
    let tw = fft::get_twiddles::<B>(rows);
    let domain = StarkDomain::from_twiddles(tw, blowup, B::GENERATOR);
    match op {
        0 => {
            let polys = m.interpolate_columns();
            let rm = RowMatrix::evaluate_polys_over::<8>(&polys, &domain);
            let root = with_hasher!(hasher, B, commit_digest::<B, E;>(&rm));
            vec![("row_matrix_data".into(), h_elems(rm.data())), ("row_matrix_commitment".into(), root)]
        },
        1 => {
            let polys = m.interpolate_columns();
            vec![("col_matrix_interpolate".into(), polys.columns().map(|c| h_elems(c)).fold(0u64, |a, b| a.rotate_left(7) ^ b))]
        },
        2 => {
            let polys = m.interpolate_columns();
            let ev = polys.evaluate_columns_over(&domain);
            vec![("col_matrix_evaluate_over".into(), ev.columns().map(|c| h_elems(c)).fold(0u64, |a, b| a.rotate_left(7) ^ b))]
        },
        _ => {
            fn cm<B: StarkField, E: FieldElement<BaseField = B>, H: ElementHasher<BaseField = B>>(m: &ColMatrix<E>) -> u64 {
                simcore::rng::fnv1a(&m.commit_to_rows::<H>().root().to_bytes())
            }
            let root = with_hasher!(hasher, B, cm::<B, E;>(&m));
            vec![("col_matrix_commitment".into(), root), ("col_matrix_at".into(), h_elems(&m.evaluate_columns_at(m.get(0, 0))))]
        },
    }
}

/// The case of a Prove workload. Besides the general generator (as in C01) two corners of the
/// parameter space that it reaches too rarely:
/// * a grinding factor of 20 / 21 (cheap hashers only): the nonce search then runs through more
///   than 2^20 candidates, i.e. through the part of the search space that a chunked or windowed
///   parallel search only reaches after its first chunk is exhausted;
/// * the largest blowup factors on the shortest traces with a constraint of the highest degree the
///   blowup admits: every per-batch index computation of the evaluator then sees batches that are
///   smaller than the constraint-evaluation blowup for pools of 9..64 workers.
/// Both sides (this build and the serial one) call this function on the same tape.
pub fn gen_prove_case<B: SimField>(ch: &mut Chooser, thorough: bool, cheap_hasher: bool) -> Case<B> {
    let lim = GenLimits { max_log_len: if thorough { 11 } else { 10 }, max_width: 40, max_grinding: 3, allow_aux: true };
    match ch.weighted("prove.corner", &[10, 1, 2]) {
        1 => {
            let small = GenLimits { max_log_len: 5, max_width: 6, max_grinding: 0, allow_aux: false };
            let mut case = gen_case::<B>(ch, &small);
            let o = case.options.clone();
            let fo = o.to_fri_options();
            let g = if cheap_hasher { 20 + ch.index("prove.grinding", 2) as u32 } else { 12 };
            case.options = air::ProofOptions::new(o.num_queries().min(8), o.blowup_factor(), g, o.field_extension(), fo.folding_factor(), fo.remainder_max_degree());
            case
        },
        2 => {
            let log_len = 3 + ch.index("corner.loglen", 2) as u32;
            let n = 1usize << log_len;
            let blowup = [64usize, 128][ch.index("corner.blowup", 2)];
            let width = 1 + ch.index("corner.width", 2);
            // degree d needs a blowup of next_power_of_two(d - 1)... let the shape say; take the
            // largest d the blowup admits, or one just above half of it
            let mut rules = vec![];
            for c in 0..width {
                let d = if ch.chance("corner.maxdeg?", 1, 2) { blowup } else { blowup / 2 + 2 + ch.index("corner.deg", blowup / 2 - 2) };
                rules.push(Rule::Pow { col: c, a: (c + 1) % width, d, k: 1 + ch.pick("corner.k", 1000) });
            }
            let mut shape = Shape {
                width,
                log_len,
                rules,
                periodic: vec![],
                exemptions: 1,
                aux: None,
                assertions: vec![AssertSpec { kind: AssertKind::Single, col: 0, first: 0, stride: 0, count: 1 }],
                meta: vec![],
            };
            while shape.min_blowup() > blowup {
                for r in shape.rules.iter_mut() {
                    if let Rule::Pow { d, .. } = r {
                        *d -= 1;
                    }
                }
            }
            let mut rows: Vec<Vec<B>> = vec![(0..width).map(|c| felt::<B>(3 + c as u64 + ch.pick("corner.init", 1 << 30))).collect()];
            for i in 0..n - 1 {
                let cur = rows[i].clone();
                rows.push(shape.rules.iter().map(|r| r.apply(&cur, &[])).collect());
            }
            let inputs = SimInputs::from_trace(&shape, &rows);
            let ext = [air::FieldExtension::None, air::FieldExtension::Quadratic][ch.index("corner.ext", 2)];
            let ext = if ext_supported::<B>(ext) { ext } else { air::FieldExtension::None };
            let q = 1 + ch.index("corner.q", 8);
            let options = air::ProofOptions::new(q, blowup, 0, ext, 2, [0usize, 1, 3][ch.index("corner.rmax", 3)]);
            Case { blowup, shape, rows, inputs, options }
        },
        _ => gen_case::<B>(ch, &lim),
    }
}

struct ProveJob<'a> {
    ch: &'a mut Chooser,
    thorough: bool,
    cheap: bool,
}

impl<'a> Job for ProveJob<'a> {
    type Out = Out;
    fn run<B: SimField, H: ElementHasher<BaseField = B> + Send + Sync + 'static>(self) -> Out {
        // sizes on both sides of the thresholds: 1024 LDE points / leaves, 8192 CE rows
        let case = gen_prove_case::<B>(self.ch, self.thorough, self.cheap);
        let (out, _) = prove::<B, H, DefaultRandomCoin<H>>(&case, &case.rows, None);
        match out {
            ProveOutcome::Ok(p) => {
                let v = verify_with::<B, H, DefaultRandomCoin<H>>((*p).clone(), case.inputs.clone(), &min_sec0());
                vec![
                    ("prove.shape".into(), simcore::rng::fnv1a(format!("{:?}{:?}", case.shape, case.options).as_bytes())),
                    // everything that is fixed before grinding
                    ("prove.commitments".into(), simcore::rng::fnv1a(&p.commitments.to_bytes())),
                    ("prove.ood_frame".into(), simcore::rng::fnv1a(&p.ood_frame.to_bytes())),
                    ("prove.verifies".into(), v.accepted() as u64),
                ]
            },
            ProveOutcome::Err(e) => vec![("prove.error".into(), simcore::rng::fnv1a(e.as_bytes()))],
            ProveOutcome::Panic(p) => vec![("prove.panic".into(), simcore::rng::fnv1a(p.signature().as_bytes()))],
        }
    }
}

/// Evaluates a workload. `ch` supplies only the workload choices of a Prove case here; schedule
/// choices are taken by SimRayon through the installed picker, not through this argument.
pub fn eval(work: &Work, ch: &mut Chooser, thorough: bool) -> Out {
    match work.clone() {
        Work::Fft { elem, op, log_n, blowup, salt } => with_elem!(elem, eval_fft(op, log_n, blowup, salt)),
        Work::Util { elem, op, n, salt } => with_elem!(elem, eval_util(op, n, salt)),
        Work::Merkle { hasher, log_leaves, extra, salt } => eval_merkle(hasher, log_leaves, extra, salt),
        Work::Fri { elem, op, folding, log_n, salt } => with_elem!(elem, eval_fri(op, folding, log_n, salt)),
        Work::Matrix { elem, op, cols, log_rows, blowup, hasher, salt } => with_elem!(elem, eval_matrix(op, cols, log_rows, blowup, hasher, salt)),
        Work::Prove => {
            let cfg = gen_cfg(ch, false);
            dispatch(cfg, ProveJob { ch, thorough, cheap: !is_rescue(cfg) })
        },
    }
}

pub fn work_name(w: &Work) -> &'static str {
    match w {
        Work::Fft { .. } => "fft",
        Work::Util { .. } => "math-utils",
        Work::Merkle { .. } => "merkle",
        Work::Fri { .. } => "fri-folding",
        Work::Matrix { .. } => "matrix",
        Work::Prove => "prove",
    }
}

// GOLDEN SIDE (serial build, child process)
// ------------------------------------------------------------------------------------------------

fn fmt_out(o: &Out) -> String {
    o.iter().map(|(k, v)| format!("{k}={v}")).collect::<Vec<_>>().join(";")
}

fn parse_out(s: &str) -> Out {
    s.split(';')
        .filter(|x| !x.is_empty())
        .filter_map(|kv| {
            let mut it = kv.splitn(2, '=');
            Some((it.next()?.to_string(), it.next()?.parse().ok()?))
        })
        .collect()
}

/// `wfsim C14 --golden`: for each line "<tier> <v,v,...>" regenerate the workload from the tape
/// values and print its digests. Runs in the build WITHOUT the `concurrent` feature.
pub fn golden_main() -> ! {
    simcore::ctx::install_panic_hook();
    let stdin = std::io::stdin();
    for line in stdin.lock().lines() {
        let Ok(line) = line else { break };
        let mut it = line.splitn(2, ' ');
        let thorough = it.next() == Some("thorough");
        let vals: Vec<u64> = it.next().unwrap_or("").split(',').filter_map(|x| x.parse().ok()).collect();
        let mut ch = Chooser::replay(vals);
        let r = simcore::guard(|| {
            let w = gen_work(&mut ch, thorough);
            eval(&w, &mut ch, thorough)
        });
        let out = std::io::stdout();
        let mut o = out.lock();
        match r {
            Ok(res) => {
                let _ = writeln!(o, "OK {}", fmt_out(&res));
            },
            Err(p) => {
                let _ = writeln!(o, "PANIC {}", p.signature());
            },
        }
        let _ = o.flush();
    }
    std::process::exit(0)
}

struct Golden {
    child: Child,
    stdin: ChildStdin,
    stdout: BufReader<ChildStdout>,
}

impl Drop for Golden {
    fn drop(&mut self) {
        let _ = self.child.kill();
        let _ = self.child.wait();
    }
}

thread_local! {
    static GOLDEN: RefCell<Option<Golden>> = const { RefCell::new(None) };
}

fn golden(thorough: bool, vals: &[u64]) -> Result<Out, String> {
    GOLDEN.with(|g| {
        let mut g = g.borrow_mut();
        if g.is_none() {
            let exe = std::env::var("WFSIM_SERIAL").map_err(|_| "WFSIM_SERIAL is not set (run through ./check)".to_string())?;
            let mut child = Command::new(exe)
                .arg("C14")
                .arg("--golden")
                .stdin(Stdio::piped())
                .stdout(Stdio::piped())
                .stderr(Stdio::null())
                .spawn()
                .map_err(|e| format!("cannot start the serial build: {e}"))?;
            let stdin = child.stdin.take().unwrap();
            let stdout = BufReader::new(child.stdout.take().unwrap());
            *g = Some(Golden { child, stdin, stdout });
        }
        let h = g.as_mut().unwrap();
        let line = format!("{} {}\n", if thorough { "thorough" } else { "quick" }, vals.iter().map(|v| v.to_string()).collect::<Vec<_>>().join(","));
        h.stdin.write_all(line.as_bytes()).and_then(|_| h.stdin.flush()).map_err(|e| format!("serial build pipe: {e}"))?;
        let mut resp = String::new();
        h.stdout.read_line(&mut resp).map_err(|e| format!("serial build pipe: {e}"))?;
        if let Some(rest) = resp.trim_end().strip_prefix("OK ") {
            Ok(parse_out(rest))
        } else if let Some(rest) = resp.trim_end().strip_prefix("PANIC ") {
            Ok(vec![("serial.panic".into(), simcore::rng::fnv1a(rest.as_bytes()))])
        } else {
            *g = None;
            Err(format!("serial build answered '{}'", resp.trim_end()))
        }
    })
}

// SIMULATED SIDE (conc build)
// ------------------------------------------------------------------------------------------------

pub const POOLS: [usize; 15] = [1, 2, 3, 5, 7, 8, 12, 16, 24, 31, 32, 33, 48, 63, 64];

#[cfg(feature = "concurrent")]
fn scenario(info: &RunInfo, ch: &mut Chooser, ctx: &mut Ctx) {
    let thorough = info.tier == Tier::Thorough;
    // 1. workload (its tape prefix is what the serial build receives)
    let work = gen_work(ch, thorough);
    let pre_prove = ch.values();
    // a Prove case consumes further workload choices: generate it on a scratch replay first so
    // that the golden side sees the complete workload tape
    let golden_vals: Vec<u64> = if matches!(work, Work::Prove) {
        // the workload choices of the case are drawn now (dry generation), before any schedule
        // choice, so that they are on the tape and can be sent to the serial build
        let cfgr = gen_cfg(ch, false);
        struct G<'a> {
            ch: &'a mut Chooser,
            thorough: bool,
            cheap: bool,
        }
        impl<'a> Job for G<'a> {
            type Out = ();
            fn run<B: SimField, H: ElementHasher<BaseField = B> + Send + Sync + 'static>(self) {
                let _ = gen_prove_case::<B>(self.ch, self.thorough, self.cheap);
            }
        }
        dispatch(cfgr, G { ch, thorough, cheap: !is_rescue(cfgr) });
        ch.values()
    } else {
        pre_prove.clone()
    };
    ctx.event_with("work", simcore::rng::fnv1a(format!("{:?}", work).as_bytes()), || format!("{:?}", work));
    let gold = match golden(thorough, &golden_vals) {
        Ok(g) => g,
        Err(e) => panic!("harness: {e}"),
    };

    // 2. pool size and schedule
    let p = if ch.chance("pool.any?", 1, 4) { 1 + ch.index("pool.size", 64) } else { POOLS[ch.index("pool.pick", POOLS.len())] };
    ctx.event("pool", p as u64, 0);
    let mut replay_work = Chooser::replay(golden_vals.clone());
    let _w2 = gen_work(&mut replay_work, thorough); // positions the replay chooser after the workload header
    let res = {
        let mut picker = |site: &'static str, n: u64| ch.pick(site, n);
        rayon::sim::with_schedule(p, &mut picker, || simcore::guard(|| eval(&work, &mut replay_work, thorough)))
    };
    let st = rayon::sim::stats();
    ctx.probe_n("parallel_ops", st.par_ops);
    ctx.probe_n("tasks", st.tasks);
    ctx.probe_n("reordered_tasks", st.reorders);
    ctx.probe_n("find_any_tests", st.find_any_tests);
    if st.reorders > 0 || p > 1 {
        ctx.nontrivial = true;
    }
    if st.reorders > 0 {
        ctx.fault("schedule_reordered_tasks");
    }
    if !p.is_power_of_two() {
        ctx.fault("pool_size_not_power_of_two");
    }
    if p > 16 {
        ctx.fault("pool_larger_than_16");
    }
    ctx.mix(st.tasks ^ st.reorders.rotate_left(17));
    let kind = work_name(&work);
    let conc = match res {
        Ok(o) => o,
        Err(pi) => {
            ctx.violation(
                format!("C14/{kind}/concurrent-panic {}", pi.signature()),
                format!("pool of {p} workers: {:?} panicked at {}:{}: {} (serial build: {})", work, pi.file, pi.line, pi.msg, fmt_out(&gold)),
            );
            return;
        },
    };
    ctx.event_with("result", simcore::rng::fnv1a(fmt_out(&conc).as_bytes()), || format!("pool {p}: {} | serial: {}", fmt_out(&conc), fmt_out(&gold)));
    for (k, v) in &conc {
        match gold.iter().find(|(gk, _)| gk == k) {
            Some((_, gv)) if gv == v => {},
            Some((_, gv)) => {
                ctx.violation(
                    format!("C14/{kind}/{k}-differs"),
                    format!("pool of {p} workers, {} tasks ({} out of order): {k} = {v:#x} but the single-threaded build gives {gv:#x}; workload {:?}", st.tasks, st.reorders, work),
                );
            },
            None => {
                ctx.violation(format!("C14/{kind}/{k}-missing-in-serial"), format!("serial build produced {} for {:?}", fmt_out(&gold), work));
            },
        }
    }
    if conc.iter().any(|(k, v)| k == "prove.verifies" && *v == 0) {
        ctx.violation(format!("C14/{kind}/concurrent-proof-rejected"), format!("pool of {p} workers: the proof produced under this schedule does not verify; {:?}", work));
    }
}

#[cfg(not(feature = "concurrent"))]
fn scenario(_info: &RunInfo, _ch: &mut Chooser, _ctx: &mut Ctx) {
    panic!("harness: C14 must run in the build with the `concurrent` feature (use ./check C14)");
}

struct SchedArm;

impl Arm for SchedArm {
    fn name(&self) -> String {
        "schedules".into()
    }
    fn runs(&self, tier: Tier, _seed: u64) -> u64 {
        match tier {
            Tier::Quick => 6000,
            Tier::Thorough => 150_000,
        }
    }
    fn run(&self, info: &RunInfo, ch: &mut Chooser, ctx: &mut Ctx) {
        scenario(info, ch, ctx)
    }
}

pub fn spec() -> CheckSpec {
    CheckSpec {
        id: "C14",
        level: "exploration",
        build: "conc (rayon = SimRayon) against serial (no `concurrent` feature)",
        rule: "one run = one workload (FFT evaluate / interpolate / twiddles at 512..4096 over base and extension elements of three fields; power series, batch inversion with zeros, add / mul-acc around the 1024 threshold; Merkle trees of 1024..8192 leaves with three hashers; FRI hash_values / apply_drp for folding 2..16; ColMatrix / RowMatrix interpolate, evaluate, commit for 1..255 columns incl. wide-and-short shapes; or a full proof of a protocol-sim case up to 2048 rows) x one simulated pool size (1..64, biased to 1,2,3,5,7,8,12,16,24,31,32,33,48,63,64) x one taped schedule (cut points and execution order of every parallel iterator, run-now / defer and pop order of every scope spawn, interleaving of find_any sub-ranges). Outputs are compared digest by digest with the same workload evaluated by the build without the `concurrent` feature; for proofs: trace / constraint / FRI commitments and the OOD frame (everything fixed before grinding), and the concurrent proof must verify. Non-trivial = pool > 1 or a task ran out of spawn order; distinct = distinct (workload, pool, schedule, results) event-log digests.".into(),
        interleaving_measure: "distinct (workload kind, pool size, schedule tape) histories, counted as distinct event-log digests; tasks executed and tasks executed out of order are reported under reach_probes".into(),
        real: vec!["every `concurrent` code path of winter-math, winter-crypto, winter-fri, winter-prover (iterators macros, fft::concurrent, merkle::concurrent, row_matrix / segments, evaluator fragments, grinding)", "the serial code paths, in a separate binary, as golden"],
        stub: vec!["rayon (SimRayon: pool size, task cut points and task order decided by the simulator; task bodies are not pre-empted)"],
        assumptions: vec![
            "granularity is the task: torn reads inside one task body are not modelled here (see the Miri arm in DESIGN.md)",
            "the nonce and the query data derived from it may differ between schedules; they are not compared",
        ],
        arms: vec![Box::new(SchedArm)],
    }
}
