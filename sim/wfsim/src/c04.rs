//! C04 — Fiat-Shamir transcript. Both parties run with RecordingCoin; the two recorded histories
//! are checked against a small executable reference model of the protocol's required order,
//! against each other, against the messages carried in the proof, and by fault injection (a
//! flipped bit in one absorbed message must change every later challenge and no earlier one).

use air::proof::{Commitments, OodFrame, Proof};
use air::FieldExtension;
use crypto::{Digest, ElementHasher};
use math::fields::{CubeExtension, QuadExtension};
use math::{FieldElement, ToElements};
use simcore::{Arm, CheckSpec, Chooser, Ctx, FnArm, RunInfo, Tier};
use utils::{Deserializable, Serializable};

use crate::coin::{self, CoinOp, RecordingCoin};
use crate::dispatch::*;
use crate::pipe::*;
use crate::proto::*;

/// One step of the reference transcript model.
#[derive(Clone, Debug, PartialEq, Eq)]
pub enum Expect {
    New,
    /// reseed with the named prover message
    Reseed(&'static str),
    /// `n` draws of extension degree `deg` for the named purpose
    Draws(usize, usize, &'static str),
    /// proof-of-work probes (prover: one or more, the last one satisfying; verifier: exactly one)
    Pow,
    Integers,
}

pub struct Model {
    pub steps: Vec<Expect>,
}

fn ext_degree(e: FieldExtension) -> usize {
    match e {
        FieldExtension::None => 1,
        FieldExtension::Quadratic => 2,
        FieldExtension::Cubic => 3,
    }
}

/// number of FRI layers for an LDE domain (independent restatement of the schedule)
pub fn fri_layers(lde: usize, blowup: usize, folding: usize, rmax: usize) -> usize {
    let mut d = lde;
    let mut l = 0;
    while d > (rmax + 1) * blowup {
        d /= folding;
        l += 1;
    }
    l
}

/// The protocol's required order (the property's list), as data.
pub fn reference_transcript<B: SimField>(case: &Case<B>, verifier: bool) -> Model {
    let s = &case.shape;
    let o = &case.options;
    let n = s.len();
    let deg = ext_degree(o.field_extension());
    let log_n = s.log_len as usize;
    let aux_plain = s.aux.as_ref().map(|a| a.plain_cols()).unwrap_or(0);
    let aux_w = s.aux.as_ref().map(|a| a.width).unwrap_or(0);
    let lagrange = s.aux.as_ref().map(|a| a.lagrange).unwrap_or(false);
    let mut st = vec![Expect::New, Expect::Reseed("main trace commitment")];
    if let Some(a) = &s.aux {
        if lagrange {
            st.push(Expect::Draws(log_n, deg, "GKR / Lagrange kernel randomness"));
        }
        st.push(Expect::Draws(a.num_rands, deg, "auxiliary segment randomness"));
        st.push(Expect::Reseed("auxiliary trace commitment"));
    }
    let aux_assertions = s.aux.as_ref().map(|a| a.num_assertions()).unwrap_or(0);
    let n_coeff = s.rules.len() + aux_plain + s.assertions.len() + aux_assertions + if lagrange { log_n + 1 } else { 0 };
    st.push(Expect::Draws(n_coeff, deg, "constraint composition coefficients"));
    st.push(Expect::Reseed("constraint commitment"));
    st.push(Expect::Draws(1, deg, "out-of-domain point z"));
    st.push(Expect::Reseed("hash of OOD trace frame"));
    st.push(Expect::Reseed("hash of OOD constraint evaluations"));
    // number of composition columns: a composition polynomial of degree D has D+1 coefficients
    let max_eval = s.degrees().iter().chain(s.aux_degrees().iter()).map(|d| d.get_evaluation_degree(n)).max().unwrap_or(0);
    let d = max_eval.saturating_sub(n - s.exemptions);
    let comp_cols = (d / n + 1).max(1);
    st.push(Expect::Draws(s.width + aux_w + comp_cols + lagrange as usize, deg, "DEEP composition coefficients"));
    let layers = fri_layers(n * o.blowup_factor(), o.blowup_factor(), case.folding(), case.rmax());
    for _ in 0..layers {
        st.push(Expect::Reseed("FRI layer commitment"));
        st.push(Expect::Draws(1, deg, "FRI folding challenge"));
    }
    st.push(Expect::Reseed("FRI remainder commitment"));
    if verifier {
        // legal asymmetry: the verifier draws one unused alpha after the remainder commitment
        st.push(Expect::Draws(1, deg, "unused alpha after the remainder commitment"));
    }
    st.push(Expect::Pow);
    st.push(Expect::Integers);
    Model { steps: st }
}

impl<B: SimField> Case<B> {
    pub fn folding(&self) -> usize {
        self.options.to_fri_options().folding_factor()
    }
    pub fn rmax(&self) -> usize {
        self.options.to_fri_options().remainder_max_degree()
    }
}

/// Matches a recorded history against the model. Returns for every model step the range of log
/// indices it covers, or a description of the first mismatch.
pub fn refine(model: &Model, log: &[CoinOp], grinding: u32, verifier: bool) -> Result<Vec<(usize, usize)>, String> {
    let mut i = 0usize;
    let mut spans = vec![];
    for (k, st) in model.steps.iter().enumerate() {
        let start = i;
        match st {
            Expect::New => {
                if !matches!(log.get(i), Some(CoinOp::New { .. })) {
                    return Err(format!("step {k}: expected new(seed), found {}", log.get(i).map(|o| o.short()).unwrap_or("end of history".into())));
                }
                i += 1;
            },
            Expect::Reseed(what) => {
                if !matches!(log.get(i), Some(CoinOp::Reseed { .. })) {
                    return Err(format!("step {k}: expected reseed({what}), found {}", log.get(i).map(|o| o.short()).unwrap_or("end of history".into())));
                }
                i += 1;
            },
            Expect::Draws(cnt, deg, what) => {
                for j in 0..*cnt {
                    match log.get(i) {
                        Some(CoinOp::Draw { ext_degree, ok: true, .. }) if ext_degree == deg => i += 1,
                        other => {
                            return Err(format!(
                                "step {k}: expected draw {}/{cnt} of degree-{deg} element for {what}, found {}",
                                j + 1,
                                other.map(|o| o.short()).unwrap_or("end of history".into())
                            ))
                        },
                    }
                }
            },
            Expect::Pow => {
                let mut cnt = 0;
                let mut last = None;
                while let Some(CoinOp::Pow { zeros, nonce }) = log.get(i) {
                    cnt += 1;
                    last = Some((*zeros, *nonce));
                    i += 1;
                }
                if cnt == 0 {
                    return Err(format!("step {k}: expected the proof-of-work check, found {}", log.get(i).map(|o| o.short()).unwrap_or("end of history".into())));
                }
                if verifier && cnt != 1 {
                    return Err(format!("step {k}: verifier made {cnt} proof-of-work checks instead of 1"));
                }
                if let Some((z, nonce)) = last {
                    if z < grinding {
                        return Err(format!("step {k}: the nonce {nonce} that was settled on has measure {z} < grinding factor {grinding}"));
                    }
                }
            },
            Expect::Integers => {
                if !matches!(log.get(i), Some(CoinOp::Integers { ok: true, .. })) {
                    return Err(format!("step {k}: expected draw_integers, found {}", log.get(i).map(|o| o.short()).unwrap_or("end of history".into())));
                }
                i += 1;
            },
        }
        spans.push((start, i));
    }
    if i != log.len() {
        return Err(format!("history continues after the query positions were drawn: {}", log[i].short()));
    }
    Ok(spans)
}

fn step_name(st: &Expect) -> String {
    match st {
        Expect::New => "new".into(),
        Expect::Reseed(w) => format!("reseed:{w}"),
        Expect::Draws(_, _, w) => format!("draw:{w}"),
        Expect::Pow => "pow".into(),
        Expect::Integers => "integers".into(),
    }
}

struct C04Job<'a> {
    ch: &'a mut Chooser,
    ctx: &'a mut Ctx,
    lim: GenLimits,
    cfg: Cfg,
}

impl<'a> Job for C04Job<'a> {
    type Out = ();
    fn run<B: SimField, H: ElementHasher<BaseField = B> + Send + Sync + 'static>(self) {
        run::<B, H>(self.ch, self.ctx, &self.lim, self.cfg)
    }
}

/// the digests a proof carries, in absorption order, recomputed from the proof alone
fn carried_messages<B: SimField, H: ElementHasher<BaseField = B>>(case: &Case<B>, proof: &Proof) -> Result<Vec<(&'static str, Vec<u8>)>, String> {
    fn inner<B: SimField, H: ElementHasher<BaseField = B>, E: FieldElement<BaseField = B>>(
        case: &Case<B>,
        proof: &Proof,
        comp_cols: usize,
    ) -> Result<Vec<(&'static str, Vec<u8>)>, String> {
        let s = &case.shape;
        let o = &case.options;
        let segs = 1 + s.aux.is_some() as usize;
        let layers = fri_layers(s.len() * o.blowup_factor(), o.blowup_factor(), case.folding(), case.rmax());
        let (troots, croot, froots) =
            proof.commitments.clone().parse::<H>(segs, layers).map_err(|e| format!("commitments do not parse: {e}"))?;
        let aux_w = s.aux.as_ref().map(|a| a.width).unwrap_or(0);
        let (ood_trace, ood_evals) =
            proof.ood_frame.clone().parse::<E>(s.width, aux_w, comp_cols).map_err(|e| format!("ood frame does not parse: {e}"))?;
        let mut out: Vec<(&'static str, Vec<u8>)> = vec![("main trace commitment", troots[0].as_bytes().to_vec())];
        if segs == 2 {
            out.push(("auxiliary trace commitment", troots[1].as_bytes().to_vec()));
        }
        out.push(("constraint commitment", croot.as_bytes().to_vec()));
        // recomputed from the bytes the proof carries (not with TraceOodFrame::hash): the
        // interleaved main / auxiliary states followed by the Lagrange kernel frame
        let _ = ood_trace;
        let ob = proof.ood_frame.to_bytes();
        let l1 = u16::from_le_bytes([ob[0], ob[1]]) as usize;
        let l2 = u16::from_le_bytes([ob[2 + l1], ob[3 + l1]]) as usize;
        let mut carried: Vec<E> = vec![];
        for range in [(3, l1.saturating_sub(1)), (5 + l1, l2.saturating_sub(1))] {
            for c in ob[range.0..range.0 + range.1].chunks(E::ELEMENT_BYTES) {
                carried.push(E::read_from_bytes(c).map_err(|e| format!("OOD trace state does not parse: {e}"))?);
            }
        }
        out.push(("hash of OOD trace frame", H::hash_elements(&carried).as_bytes().to_vec()));
        // likewise the constraint evaluations: the third blob of the frame
        let _ = ood_evals;
        let l3 = u16::from_le_bytes([ob[4 + l1 + l2], ob[5 + l1 + l2]]) as usize;
        let mut evals: Vec<E> = vec![];
        for c in ob[6 + l1 + l2..6 + l1 + l2 + l3].chunks(E::ELEMENT_BYTES) {
            evals.push(E::read_from_bytes(c).map_err(|e| format!("OOD constraint evaluation does not parse: {e}"))?);
        }
        out.push(("hash of OOD constraint evaluations", H::hash_elements(&evals).as_bytes().to_vec()));
        for (i, r) in froots.iter().enumerate() {
            out.push((if i + 1 == froots.len() { "FRI remainder commitment" } else { "FRI layer commitment" }, r.as_bytes().to_vec()));
        }
        Ok(out)
    }
    let s = &case.shape;
    let n = s.len();
    let max_eval = s.degrees().iter().chain(s.aux_degrees().iter()).map(|d| d.get_evaluation_degree(n)).max().unwrap_or(0);
    let comp_cols = (max_eval.saturating_sub(n - s.exemptions) / n + 1).max(1);
    match case.options.field_extension() {
        FieldExtension::None => inner::<B, H, B>(case, proof, comp_cols),
        FieldExtension::Quadratic => inner::<B, H, QuadExtension<B>>(case, proof, comp_cols),
        FieldExtension::Cubic => inner::<B, H, CubeExtension<B>>(case, proof, comp_cols),
    }
}

fn run<B: SimField, H: ElementHasher<BaseField = B> + Send + Sync + 'static>(ch: &mut Chooser, ctx: &mut Ctx, lim: &GenLimits, cfg: Cfg) {
    let case = gen_case::<B>(ch, lim);
    ctx.event_with("case", simcore::rng::fnv1a(format!("{:?}{:?}{:?}", cfg, case.shape, case.options).as_bytes()), || {
        format!("{:?} {:?}; shape: {}", cfg, case.options, case.shape.describe())
    });
    ctx.nontrivial = true;
    let ctxt = || format!("{:?} {:?} shape {}", cfg, case.options, case.shape.describe());

    // prover party
    coin::clear_log();
    let (out, prec) = prove::<B, H, RecordingCoin<H>>(&case, &case.rows, None);
    let plog = coin::take_log();
    let ProveOutcome::Ok(proof) = out else {
        ctx.skipped = Some("baseline_failed");
        return;
    };
    let proof = *proof;
    // verifier party
    coin::clear_log();
    SEEN_BY_VERIFIER.with(|s| *s.borrow_mut() = SeenChallenges::default());
    let v = verify_with::<B, H, RecordingCoin<H>>(proof.clone(), case.inputs.clone(), &min_sec0());
    let vlog = coin::take_log();
    // 0. the challenges for the auxiliary segment as each party USED them (whatever the verdict:
    //    two parties that make the same coin calls but hand the results to different consumers
    //    have identical histories and still disagree on every value)
    if case.shape.aux.is_some() {
        let seen = SEEN_BY_VERIFIER.with(|s| s.borrow().clone());
        if let Some(vr) = &seen.aux_rands {
            if *vr != prec.aux_rands {
                ctx.violation(
                    "C04/challenge-used-differs auxiliary-segment-randomness",
                    format!("the auxiliary random elements the verifier's AIR was handed differ from the ones the prover built its auxiliary segment with (prover {} elements, verifier {}); {}", prec.aux_rands.len(), vr.len(), ctxt()),
                );
                return;
            }
            ctx.probe("aux_randomness_used_identically");
        }
        if let Some(vl) = &seen.lagrange {
            if *vl != prec.lagrange_rands {
                ctx.violation(
                    "C04/challenge-used-differs lagrange-kernel-randomness",
                    format!("the Lagrange-kernel random elements the verifier drew differ from the ones the prover built the Lagrange column with; {}", ctxt()),
                );
                return;
            }
            ctx.probe("lagrange_randomness_used_identically");
        }
    }
    if !v.accepted() {
        ctx.skipped = Some("baseline_failed");
        return;
    }
    ctx.event("histories", plog.len() as u64, vlog.len() as u64);
    ctx.note(|| format!("prover coin history: {}", plog.iter().filter(|o| !matches!(o, CoinOp::Pow { .. })).map(|o| o.short()).collect::<Vec<_>>().join(" ")));
    ctx.note(|| format!("verifier coin history: {}", vlog.iter().map(|o| o.short()).collect::<Vec<_>>().join(" ")));

    // 1. refinement of the reference transcript model, each side on its own
    let g = case.options.grinding_factor();
    let pm = reference_transcript(&case, false);
    let vm = reference_transcript(&case, true);
    let pspans = match refine(&pm, &plog, g, false) {
        Ok(s) => s,
        Err(e) => {
            let what = e.split(':').nth(1).unwrap_or("").trim().split(',').next().unwrap_or("").to_string();
            ctx.violation(
                format!("C04/prover-transcript-order {}", variant_name(&what.replace(|c: char| c.is_ascii_digit(), "#"))),
                format!("the prover's coin history does not follow the protocol's order: {e}; {}", ctxt()),
            );
            return;
        },
    };
    let vspans = match refine(&vm, &vlog, g, true) {
        Ok(s) => s,
        Err(e) => {
            let what = e.split(':').nth(1).unwrap_or("").trim().split(',').next().unwrap_or("").to_string();
            ctx.violation(
                format!("C04/verifier-transcript-order {}", variant_name(&what.replace(|c: char| c.is_ascii_digit(), "#"))),
                format!("the verifier's coin history does not follow the protocol's order: {e}; {}", ctxt()),
            );
            return;
        },
    };
    ctx.probe_n("model_steps_matched", (pm.steps.len() + vm.steps.len()) as u64);

    // 2. same messages, same challenges (model steps are aligned except for the verifier's
    //    unused alpha)
    let mut vi = 0usize;
    for (pi, pst) in pm.steps.iter().enumerate() {
        while vm.steps[vi] != *pst {
            vi += 1; // skips only the verifier-only step
        }
        let (ps, pe) = pspans[pi];
        let (vs, ve) = vspans[vi];
        let same = match pst {
            Expect::Pow => {
                // the prover's last probe and the verifier's single probe are the same nonce
                plog[pe - 1] == vlog[ve - 1]
            },
            _ => plog[ps..pe] == vlog[vs..ve],
        };
        if !same {
            ctx.violation(
                format!("C04/parties-disagree {}", step_name(pst)),
                format!("prover and verifier disagree at '{}': prover {:?} verifier {:?}; {}", step_name(pst), plog[ps..pe].iter().map(|o| o.short()).collect::<Vec<_>>(), vlog[vs..ve].iter().map(|o| o.short()).collect::<Vec<_>>(), ctxt()),
            );
            return;
        }
        vi += 1;
    }

    // 3. absorbed = carried: seed and every reseed argument equal what the proof carries
    let mut seed: Vec<B> = ToElements::<B>::to_elements(&proof.context);
    seed.extend(case.inputs.to_elements());
    let expect_seed = CoinOp::New { seed_elems: seed.len(), seed_hash: coin::elems_hash(&seed) };
    for (side, log) in [("prover", &plog), ("verifier", &vlog)] {
        if log[0] != expect_seed {
            ctx.violation(format!("C04/{side}-seed-not-context-and-public-inputs"), format!("{side} seeded the coin with {} instead of hash(context || public inputs); {}", log[0].short(), ctxt()));
            return;
        }
    }
    match carried_messages::<B, H>(&case, &proof) {
        Err(e) => {
            ctx.violation("C04/carried-messages-unreadable", format!("{e}; {}", ctxt()));
            return;
        },
        Ok(msgs) => {
            for (side, log) in [("prover", &plog), ("verifier", &vlog)] {
                let reseeds: Vec<&Vec<u8>> = log.iter().filter_map(|o| if let CoinOp::Reseed { data } = o { Some(data) } else { None }).collect();
                if reseeds.len() != msgs.len() {
                    ctx.violation(format!("C04/{side}-absorbs-other-number-of-messages"), format!("{side} absorbed {} messages, the proof carries {}; {}", reseeds.len(), msgs.len(), ctxt()));
                    return;
                }
                for (r, (name, m)) in reseeds.iter().zip(msgs.iter()) {
                    if *r != m {
                        ctx.violation(
                            format!("C04/{side}-absorbed-not-carried {name}"),
                            format!("{side} absorbed {:02x?}.. for '{name}' but the proof carries {:02x?}..; {}", &r[..4], &m[..4], ctxt()),
                        );
                        return;
                    }
                }
            }
        },
    }
    // nonce carried = nonce used
    if let Some(CoinOp::Integers { nonce, .. }) = vlog.last() {
        if *nonce != proof.pow_nonce {
            ctx.violation("C04/verifier-nonce-not-carried", format!("draw_integers received nonce {nonce}, the proof carries {}; {}", proof.pow_nonce, ctxt()));
            return;
        }
    }

    // 4. dependency by fault injection: flip one bit of one absorbed message in the proof.
    // Not for a trace whose rows are all equal: its proof does not depend on any challenge and
    // all Merkle leaves are equal, so e.g. another nonce (grinding 0) gives another CORRECT proof.
    if case.rows.iter().all(|r| r == &case.rows[0]) {
        ctx.probe("flip_skipped_for_constant_trace");
        return;
    }
    let targets = ["main", "aux", "constraint", "ood-trace", "ood-evals", "fri", "nonce", "ood-lagrange"];
    let t = targets[ch.index("flip.target", targets.len())];
    let mut p2 = proof.clone();
    let cb = proof.commitments.to_bytes(); // u16 length + digests
    let dsz = cb[2..].len() / (pm.steps.iter().filter(|s| matches!(s, Expect::Reseed(w) if w.contains("commitment"))).count());
    let segs = 1 + case.shape.aux.is_some() as usize;
    // index (in absorption order) of the flipped message among the verifier's reseeds
    let flipped_reseed: Option<usize> = match t {
        "main" | "aux" | "constraint" | "fri" => {
            let nfri = cb[2..].len() / dsz - segs - 1;
            let k = match t {
                "main" => 0,
                "aux" if segs == 2 => 1,
                "aux" | "constraint" => segs,
                _ => segs + 1 + ch.index("flip.fri", nfri),
            };
            let mut b = cb.clone();
            let bit = ch.index("flip.bit", dsz * 8);
            b[2 + k * dsz + bit / 8] ^= 1 << (bit % 8);
            match Commitments::read_from_bytes(&b) {
                Ok(c) => p2.commitments = c,
                Err(_) => return,
            }
            // commitments k >= segs+1 are FRI ones: two OOD reseeds come in between
            Some(if k <= segs { k } else { k + 2 })
        },
        "ood-trace" | "ood-evals" | "ood-lagrange" => {
            let ob = proof.ood_frame.to_bytes();
            let l1 = u16::from_le_bytes([ob[0], ob[1]]) as usize;
            let l2 = u16::from_le_bytes([ob[2 + l1], ob[3 + l1]]) as usize;
            let l3 = u16::from_le_bytes([ob[4 + l1 + l2], ob[5 + l1 + l2]]) as usize;
            let mut b = ob.clone();
            let (off, len) = match t {
                "ood-trace" => (3, l1 - 1),
                // the Lagrange kernel frame when there is one, the main / auxiliary states otherwise
                "ood-lagrange" if l2 > 1 => (5 + l1, l2 - 1),
                "ood-lagrange" => (3, l1 - 1),
                _ => (6 + l1 + l2, l3),
            };
            let byte = ch.index("flip.byte", len);
            // low bit of a byte: keeps field elements canonical with overwhelming probability
            b[off + byte] ^= 1;
            match OodFrame::read_from_bytes(&b) {
                Ok(o) => p2.ood_frame = o,
                Err(_) => return,
            }
            Some(segs + 1 + (t == "ood-evals") as usize)
        },
        _ => {
            // one bit of the nonce, or the nonce moved by the base field's modulus (an integer
            // that a hasher which absorbs the nonce as field elements has to keep apart)
            let m = to_u128(B::ZERO - B::ONE) + 1;
            let moved = if m <= u64::MAX as u128 { p2.pow_nonce.checked_add(m as u64) } else { None };
            match (ch.chance("flip.nonce_by_modulus?", 1, 3), moved) {
                (true, Some(n)) => {
                    p2.pow_nonce = n;
                    ctx.probe("nonce_moved_by_the_field_modulus");
                },
                _ => p2.pow_nonce ^= 1 << ch.index("flip.bit", 16),
            }
            None
        },
    };
    let altered_nonce = p2.pow_nonce;
    ctx.fault(match t {
        "main" => "flip_main_trace_commitment",
        "aux" => "flip_aux_or_constraint_commitment",
        "constraint" => "flip_constraint_commitment",
        "ood-trace" => "flip_ood_trace_frame",
        "ood-lagrange" => "flip_ood_lagrange_kernel_frame",
        "ood-evals" => "flip_ood_constraint_evaluations",
        "fri" => "flip_fri_commitment",
        _ => "flip_pow_nonce",
    });
    coin::clear_log();
    let v2 = verify_with::<B, H, RecordingCoin<H>>(p2, case.inputs.clone(), &min_sec0());
    let flog = coin::take_log();
    ctx.event_with("flip", simcore::rng::fnv1a(format!("{t}{}", v2.short()).as_bytes()), || format!("bit flipped in {t}: verifier {} after {} coin operations", v2.short(), flog.len()));
    if v2.accepted() && t == "nonce" {
        // another nonce that satisfies the proof-of-work bound and leads to the same set of
        // query positions yields another correct proof (possible on tiny domains with few queries)
        let set = |l: &[CoinOp]| -> Vec<usize> {
            let mut v = match l.last() {
                Some(CoinOp::Integers { values, .. }) => values.clone(),
                _ => vec![],
            };
            v.sort_unstable();
            v.dedup();
            v
        };
        if set(&vlog) == set(&flog) {
            // ... unless the coin does not tell the two nonces apart at all: decided on 64
            // integers below 2^32 drawn under each nonce from the state the positions come from
            coin::set_alias_probe(altered_nonce);
            coin::clear_log();
            let _ = verify_with::<B, H, RecordingCoin<H>>(proof.clone(), case.inputs.clone(), &min_sec0());
            coin::clear_log();
            if coin::take_alias_probe() == Some(true) {
                ctx.violation(
                    "C04/nonce-alias",
                    format!("the coin gives identical outputs for the nonces {} and {altered_nonce}: the proof-of-work check and the query positions do not depend on the nonce carried in the proof; {}", proof.pow_nonce, ctxt()),
                );
                return;
            }
            ctx.probe("flipped_nonce_gives_same_positions");
            return;
        }
    }
    if v2.accepted() {
        ctx.violation(format!("C04/flipped-message-accepted {t}"), format!("a proof with one bit flipped in '{t}' was accepted; {}", ctxt()));
        return;
    }
    // compare challenge by challenge with the honest verifier history
    let mut reseeds_seen = 0usize;
    for (i, (h, f)) in vlog.iter().zip(flog.iter()).enumerate() {
        let after = match flipped_reseed {
            Some(k) => reseeds_seen > k,
            None => matches!(h, CoinOp::Integers { .. }),
        };
        match (h, f) {
            (CoinOp::Reseed { .. }, _) => reseeds_seen += 1,
            (CoinOp::Draw { value: a, .. }, CoinOp::Draw { value: b, .. }) => {
                if after && a == b {
                    ctx.violation(
                        format!("C04/challenge-independent-of-earlier-message {t}"),
                        format!("coin operation #{i} ({}) is unchanged although '{t}', absorbed before it, was altered; {}", h.short(), ctxt()),
                    );
                    return;
                }
                if !after && a != b {
                    ctx.violation(format!("C04/challenge-depends-on-later-message {t}"), format!("coin operation #{i} changed although '{t}' is absorbed only later; {}", ctxt()));
                    return;
                }
            },
            (CoinOp::Integers { values: a, domain, count, .. }, CoinOp::Integers { values: b, .. }) => {
                // positions are small integers: demand a difference only when a coincidence is
                // negligible (>= 40 bits of positions)
                let bits = (*domain as f64).log2() * (*count as f64);
                if a == b && bits >= 40.0 {
                    ctx.violation(format!("C04/positions-independent-of-earlier-message {t}"), format!("query positions unchanged although '{t}' was altered; {}", ctxt()));
                    return;
                }
            },
            _ => {},
        }
    }
}

fn scenario(info: &RunInfo, ch: &mut Chooser, ctx: &mut Ctx) {
    let thorough = info.tier == Tier::Thorough;
    let cfg = gen_cfg(ch, true);
    let lim = if is_rescue(cfg) {
        GenLimits { max_log_len: 5, max_width: 12, max_grinding: 2, allow_aux: true }
    } else {
        GenLimits { max_log_len: if thorough { 9 } else { 7 }, max_width: 64, max_grinding: if thorough { 10 } else { 6 }, allow_aux: true }
    };
    dispatch(cfg, C04Job { ch, ctx, lim, cfg });
}

// EQUIVOCATING PROVER
// ================================================================================================
// A Byzantine prover node announces - and absorbs into its own coin - another digest X than the
// root R of the tree it opens the queries against (main or auxiliary segment). Whatever the
// transport then makes of the list of trace roots (X only, R only, both in either order, at
// either place), the verifier must refuse: either the challenges were not derived from the
// commitment that is checked, or the checked commitment is not the one that was absorbed.

struct EqJob<'a> {
    ch: &'a mut Chooser,
    ctx: &'a mut Ctx,
    lim: GenLimits,
    cfg: Cfg,
}

impl<'a> Job for EqJob<'a> {
    type Out = ();
    fn run<B: SimField, H: ElementHasher<BaseField = B> + Send + Sync + 'static>(self) {
        equivocate::<B, H>(self.ch, self.ctx, &self.lim, self.cfg)
    }
}

fn equivocate<B: SimField, H: ElementHasher<BaseField = B> + Send + Sync + 'static>(ch: &mut Chooser, ctx: &mut Ctx, lim: &GenLimits, cfg: Cfg) {
    use crypto::DefaultRandomCoin;
    let case = gen_case::<B>(ch, lim);
    let n = case.shape.len();
    // a (nearly) constant trace gives a proof whose content does not depend on any challenge:
    // with the real root restored it is a correct proof again (see DESIGN 6.3)
    let lively = case.shape.rules.iter().any(|r| {
        let c = r.col();
        let mut vals: Vec<u128> = case.rows.iter().map(|row| to_u128(row[c])).collect();
        vals.sort_unstable();
        vals.dedup();
        vals.len() >= n / 2
    });
    if !lively {
        ctx.skipped = Some("degenerate_trace");
        return;
    }
    let (out, _) = prove::<B, H, DefaultRandomCoin<H>>(&case, &case.rows, None);
    let ProveOutcome::Ok(honest) = out else {
        ctx.skipped = Some("baseline_failed");
        return;
    };
    if !verify_with::<B, H, DefaultRandomCoin<H>>(*honest, case.inputs.clone(), &min_sec0()).accepted() {
        ctx.skipped = Some("baseline_failed");
        return;
    }
    let lie = if case.shape.aux.is_some() && ch.chance("lie.aux?", 2, 3) { Lie::AuxCommitment } else { Lie::MainCommitment };
    ctx.event_with("case", simcore::rng::fnv1a(format!("{:?}{:?}{:?}{:?}", cfg, case.shape, case.options, lie).as_bytes()), || {
        format!("{:?} {:?}; shape: {}; lie: {:?}", cfg, case.options, case.shape.describe(), lie)
    });
    ctx.fault(match lie {
        Lie::MainCommitment => "prover_announces_another_main_commitment",
        Lie::AuxCommitment => "prover_announces_another_aux_commitment",
    });
    ctx.nontrivial = true;
    let proof = match prove_lying::<B, H, DefaultRandomCoin<H>>(&case, lie) {
        ProveOutcome::Ok(p) => *p,
        other => {
            ctx.event_with("lying-prover", 0, || format!("{:?}", other));
            ctx.skipped = Some("lying_prover_did_not_emit_a_proof");
            return;
        },
    };
    let (real_main, real_aux) = REAL_ROOTS.with(|r| r.borrow().clone());
    let real_bytes = if lie == Lie::MainCommitment { real_main } else { real_aux };
    let Ok(real) = <H::Digest as Deserializable>::read_from_bytes(&real_bytes) else {
        panic!("harness: real root not recorded");
    };
    let segs = 1 + case.shape.aux.is_some() as usize;
    let o = &case.options;
    let layers = fri_layers(n * o.blowup_factor(), o.blowup_factor(), case.folding(), case.rmax());
    let Ok((troots, croot, froots)) = proof.commitments.clone().parse::<H>(segs, layers) else {
        panic!("harness: commitments of the lying prover's proof do not parse");
    };
    let li = if lie == Lie::MainCommitment { 0 } else { 1 };
    let announced = troots[li];
    if announced == real {
        panic!("harness: the lie equals the truth");
    }
    let mut fixed = troots.clone();
    fixed[li] = real;
    // candidate lists of trace roots
    let mut variants: Vec<(String, Vec<H::Digest>)> = vec![("announced-only".into(), troots.clone()), ("real-only".into(), fixed.clone())];
    for k in 0..=troots.len() {
        let mut a = fixed.clone();
        a.insert(k, announced);
        variants.push((format!("real-in-place-announced-inserted-at-{k}"), a));
        let mut b = troots.clone();
        b.insert(k, real);
        variants.push((format!("announced-in-place-real-inserted-at-{k}"), b));
    }
    let what = if lie == Lie::MainCommitment { "main" } else { "aux" };
    for (name, roots) in variants {
        let mut p2 = proof.clone();
        p2.commitments = Commitments::new::<H>(roots, croot, froots.clone());
        let direct = verify_with::<B, H, DefaultRandomCoin<H>>(p2.clone(), case.inputs.clone(), &min_sec0());
        let bytes = p2.to_bytes();
        let via_bytes = match simcore::guard(|| Proof::from_bytes(&bytes)) {
            Ok(Ok(p3)) => verify_with::<B, H, DefaultRandomCoin<H>>(p3, case.inputs.clone(), &min_sec0()),
            Ok(Err(_)) => VerifyOutcome::Reject("parse".into()),
            Err(pi) => VerifyOutcome::Panic(pi),
        };
        ctx.event_with("variant", simcore::rng::fnv1a(format!("{name}{}{}", direct.short(), via_bytes.short()).as_bytes()), || format!("{what} commitment, {name}: {} / after bytes {}", direct.short(), via_bytes.short()));
        for v in [&direct, &via_bytes] {
            if let VerifyOutcome::Panic(pi) = v {
                ctx.violation(format!("C04/equivocation/verifier-panic {}", pi.signature()), format!("{what} commitment, {name}: {}:{} {}; {}", pi.file, pi.line, pi.msg, case.shape.describe()));
                return;
            }
        }
        if direct.accepted() || via_bytes.accepted() {
            let shape = name.split("-at-").next().unwrap_or(&name).to_string();
            ctx.violation(
                format!("C04/equivocating-prover-accepted {what} {shape}"),
                format!(
                    "the prover announced (and derived its challenges from) another {what}-segment commitment than the root its openings verify against; with the trace roots arranged as '{name}' the verifier accepted ({} / {}): the challenges do not depend on the commitment that is checked; {:?} {}",
                    direct.short(),
                    via_bytes.short(),
                    case.options,
                    case.shape.describe()
                ),
            );
            return;
        }
    }
}

fn equivocation(info: &RunInfo, ch: &mut Chooser, ctx: &mut Ctx) {
    let thorough = info.tier == Tier::Thorough;
    let cfg = gen_cfg(ch, true);
    let lim = if is_rescue(cfg) {
        GenLimits { max_log_len: 5, max_width: 8, max_grinding: 0, allow_aux: true }
    } else {
        GenLimits { max_log_len: if thorough { 8 } else { 6 }, max_width: 24, max_grinding: 2, allow_aux: true }
    };
    dispatch(cfg, EqJob { ch, ctx, lim, cfg });
}

// CONTEXT ABSORPTION
// ================================================================================================

#[derive(Clone, Debug, PartialEq, Eq)]
struct CtxParams {
    main: usize,
    aux: usize,
    rands: usize,
    log_len: u32,
    meta: Vec<u8>,
    queries: usize,
    blowup: usize,
    grinding: u32,
    ext: u8,
    folding: usize,
    rmax: usize,
    /// which base field's modulus the context names: 0 = the run's own, 1 / 2 = the two others
    modulus_of: u8,
}

fn context_elements<B: SimField>(p: &CtxParams) -> Vec<B> {
    use air::proof::Context;
    use air::{ProofOptions, TraceInfo};
    use math::fields::{f128, f62, f64};
    let info = TraceInfo::new_multi_segment(p.main, p.aux, p.rands, 1usize << p.log_len, p.meta.clone());
    let ext = [FieldExtension::None, FieldExtension::Quadratic, FieldExtension::Cubic][p.ext as usize];
    let options = ProofOptions::new(p.queries, p.blowup, p.grinding, ext, p.folding, p.rmax);
    let own_bits = B::MODULUS_BITS;
    // the three moduli, the run's own first
    // (a 16-byte modulus cannot be turned into elements of an 8-byte field at all: verify()
    // compares the modulus before it does that, so that combination is not part of the claim)
    let _ = core::marker::PhantomData::<f128::BaseElement>;
    let c = match (p.modulus_of, own_bits) {
        (0, _) => Context::new::<B>(info, options),
        (_, 62) => Context::new::<f64::BaseElement>(info, options),
        (_, 64) => Context::new::<f62::BaseElement>(info, options),
        (1, _) => Context::new::<f62::BaseElement>(info, options),
        _ => Context::new::<f64::BaseElement>(info, options),
    };
    ToElements::<B>::to_elements(&c)
}

/// "the coin has absorbed the proof context": two contexts that differ in one parameter must
/// seed the coin differently. One run = one valid parameter tuple and one single-parameter
/// variant of it; the seed elements (and the first challenge drawn from them) must differ.
fn context_absorption(_info: &RunInfo, ch: &mut Chooser, ctx: &mut Ctx) {
    let cfg = gen_cfg(ch, true);
    struct J<'a> {
        ch: &'a mut Chooser,
        ctx: &'a mut Ctx,
        cfg: Cfg,
    }
    impl<'a> Job for J<'a> {
        type Out = ();
        fn run<B: SimField, H: ElementHasher<BaseField = B> + Send + Sync + 'static>(self) {
            let (ch, ctx, cfg) = (self.ch, self.ctx, self.cfg);
            let aux = if ch.chance("cx.aux?", 1, 2) { 1 + ch.index("cx.auxw", 100) } else { 0 };
            let meta_len = ch.biased("cx.metalen", 0, 40, &[0, 1, 7, 8, 15, 16]) as usize;
            let salt = ch.u64("cx.metasalt");
            let mut r = simcore::rng::Xoshiro::from_u64(salt);
            let base = CtxParams {
                main: 1 + ch.index("cx.main", 150),
                aux,
                rands: if aux > 0 { ch.index("cx.rands", 256) } else { 0 },
                log_len: 3 + ch.index("cx.loglen", 22) as u32,
                meta: (0..meta_len).map(|_| r.next() as u8).collect(),
                queries: 1 + ch.index("cx.q", 255),
                blowup: 2 << ch.index("cx.blowup", 6),
                grinding: ch.index("cx.grind", 33) as u32,
                ext: ch.index("cx.ext", 3) as u8,
                folding: 2 << ch.index("cx.fold", 4),
                rmax: (1usize << ch.index("cx.rmax", 9)) - 1,
                modulus_of: 0,
            };
            let mut v = base.clone();
            let field = ch.index("cx.variant", 18);
            let name = match field {
                0 => {
                    v.main = if v.main < 150 { v.main + 1 } else { v.main - 1 };
                    "main_width"
                },
                1 => {
                    v.aux = if v.aux == 0 { 1 } else { v.aux + 1 };
                    "aux_width"
                },
                2 if v.aux > 0 => {
                    v.rands = (v.rands + 1) % 256;
                    "num_aux_rands"
                },
                3 => {
                    v.log_len = if v.log_len < 24 { v.log_len + 1 } else { v.log_len - 1 };
                    "trace_length"
                },
                4 => {
                    v.queries = v.queries % 255 + 1;
                    "num_queries"
                },
                5 => {
                    v.blowup = if v.blowup < 128 { v.blowup * 2 } else { 2 };
                    "blowup_factor"
                },
                6 => {
                    v.grinding = (v.grinding + 1) % 33;
                    "grinding_factor"
                },
                7 => {
                    v.ext = (v.ext + 1 + ch.index("cx.ext2", 2) as u8) % 3;
                    "field_extension"
                },
                8 => {
                    v.folding = if v.folding < 16 { v.folding * 2 } else { 2 };
                    "fri_folding_factor"
                },
                9 => {
                    v.rmax = if v.rmax < 255 { v.rmax * 2 + 1 } else { 0 };
                    "fri_remainder_max_degree"
                },
                10 => {
                    v.modulus_of = 1 + ch.index("cx.mod", 2) as u8;
                    "field_modulus"
                },
                11 if !v.meta.is_empty() => {
                    let k = ch.index("cx.metabit", v.meta.len() * 8);
                    v.meta[k / 8] ^= 1 << (k % 8);
                    "trace_meta_bit"
                },
                12 if v.aux > 0 && v.aux != v.main => {
                    core::mem::swap(&mut v.main, &mut v.aux);
                    "main_and_aux_width_swapped"
                },
                13 if v.aux > 0 && v.rands != v.aux && v.rands > 0 && v.main + v.rands <= 255 => {
                    core::mem::swap(&mut v.rands, &mut v.aux);
                    "aux_width_and_rands_swapped"
                },
                14 => {
                    v.meta.push(1 + (ch.index("cx.metabyte", 255) as u8));
                    "trace_meta_byte_appended"
                },
                16 => {
                    v.meta.push(0);
                    "trace_meta_zero_byte_appended"
                },
                17 if v.meta.last() == Some(&0) => {
                    v.meta.pop();
                    "trace_meta_zero_byte_removed"
                },
                15 if v.queries != v.blowup && v.queries.is_power_of_two() && (2..=128).contains(&v.queries) && v.blowup <= 255 => {
                    core::mem::swap(&mut v.queries, &mut v.blowup);
                    "queries_and_blowup_swapped"
                },
                _ => {
                    v.grinding = (v.grinding + 7) % 33;
                    "grinding_factor"
                },
            };
            ctx.fault("context_parameter_changed");
            let (a, b) = match simcore::guard(|| (context_elements::<B>(&base), context_elements::<B>(&v))) {
                Ok(x) => x,
                Err(p) => {
                    ctx.violation(format!("HARNESS/context-constructor-panic {}", p.signature()), format!("{}:{} {} for {:?} / {:?}", p.file, p.line, p.msg, base, v));
                    return;
                },
            };
            ctx.event_with("context", simcore::rng::fnv1a(format!("{:?}{:?}{name}", cfg.0, base).as_bytes()), || format!("{:?}: {:?} vs variant '{name}' {:?}: {} / {} seed elements", cfg.0, base, v, a.len(), b.len()));
            if a == b {
                ctx.violation(
                    format!("C04/context-parameter-not-absorbed {name}"),
                    format!("two proof contexts that differ in '{name}' give the same seed elements, so no challenge depends on it: {:?} vs {:?} (field {:?})", base, v, cfg.0),
                );
                return;
            }
            // and the coins seeded with them (followed by the same public inputs) disagree
            use crypto::{DefaultRandomCoin, RandomCoin};
            let d = |e: &[B]| DefaultRandomCoin::<H>::new(e).draw::<B>().ok();
            if d(&a) == d(&b) && d(&a).is_some() {
                ctx.violation(format!("C04/context-parameter-not-absorbed-by-coin {name}"), format!("{:?} vs {:?}", base, v));
            }
        }
    }
    dispatch(cfg, J { ch, ctx, cfg });
}

pub fn spec() -> CheckSpec {
    let arms: Vec<Box<dyn Arm>> = vec![
        Box::new(FnArm { name: "transcript", quick: 3000, thorough: 60_000, f: scenario }),
        Box::new(FnArm { name: "context-absorption", quick: 40_000, thorough: 1_000_000, f: context_absorption }),
        Box::new(FnArm { name: "equivocating-prover", quick: 1_500, thorough: 40_000, f: equivocation }),
    ];
    CheckSpec {
        id: "C04",
        level: "exploration",
        build: "serial",
        rule: "one run = one generated case (as C01) proved and verified with a recording coin substituted on both sides; the two recorded coin histories (new / reseed / draw / proof-of-work / draw_integers with arguments and results) are (1) matched against an executable reference model of the protocol order, (2) compared with each other, (3) compared with the messages parsed out of the proof, and (4) a bit is flipped in one absorbed message of the proof (commitment, OOD frame, nonce; position chosen by the simulator) and the verifier re-run: every later challenge must change, no earlier one may. Arm context-absorption: one valid (trace info, proof options, field modulus) tuple and a variant of it that differs in one parameter (widths, random-element count, trace length, metadata bit / appended byte, queries, blowup, grinding, extension, folding, remainder degree, modulus, two swapped parameters): the seed elements the context contributes, and the first challenge of a coin seeded with them, must differ. Every run is non-trivial; distinct = distinct event-log digests.".into(),
        interleaving_measure: "distinct (case, flipped message, flipped bit) histories; the recorded coin histories themselves are the object checked".into(),
        real: vec!["winter-prover channel + pipeline, winter-verifier, winter-fri prover / verifier (coin use), crypto::DefaultRandomCoin (wrapped, not replaced)"],
        stub: vec!["RecordingCoin: delegating wrapper that only logs"],
        assumptions: vec![
            "the reference transcript model is the property's own list of steps; two asymmetries are legal and built in: the prover's nonce search (many proof-of-work probes) and the verifier's unused folding challenge drawn after the remainder commitment",
            "'differs after a flip' is asserted on field-element challenges and on query positions only when they carry >= 40 bits",
        ],
        arms,
    }
}

/// The values (canonical element bytes) of the verifier's draws for the model step whose label
/// contains `label`, taken from a recorded verifier history.
pub fn verifier_draws<B: SimField>(case: &Case<B>, vlog: &[CoinOp], label: &str) -> Option<Vec<Vec<u8>>> {
    let m = reference_transcript(case, true);
    let spans = refine(&m, vlog, case.options.grinding_factor(), true).ok()?;
    for (st, (a, b)) in m.steps.iter().zip(spans.iter()) {
        if let Expect::Draws(_, _, w) = st {
            if w.contains(label) {
                return Some(vlog[*a..*b].iter().filter_map(|o| if let CoinOp::Draw { value, .. } = o { Some(value.clone()) } else { None }).collect());
            }
        }
    }
    None
}
