//! C06 — hostile bytes never panic, abort, hang, or over-allocate. Every case runs in an
//! isolated worker process with an allocation meter; the parent attributes a dead or silent
//! worker to the input it had announced.


use simcore::iso::{danger_zone, IsoArm};
use simcore::{Arm, CheckSpec, Chooser, Ctx, RunInfo, Tier};

use crate::hostile::*;
use crate::wire::{self, Kind};

const MAX_SINGLE_ALLOC: usize = 16 << 20;
const MAX_TOTAL_ALLOC: usize = 64 << 20;

pub fn judge(ctx: &mut Ctx, prop: &str, base: &dyn Base, what: &str, d: &Delivered, data_len: usize) {
    ctx.probe(match (&d.parse, &d.verify) {
        (ParseRes::Err(_), _) => "parse_rejected",
        (ParseRes::Ok, Some(v)) if v.accepted() => "verify_accepted",
        (ParseRes::Ok, Some(_)) => "verify_rejected",
        _ => "panicked",
    });
    if let ParseRes::Panic(p) = &d.parse {
        ctx.violation(
            format!("{prop}/parse-panic {}", p.signature()),
            format!("Proof parsing panicked at {}:{}: {}; input: {what} of base [{}]", p.file, p.line, p.msg, base.name()),
        );
    }
    if let Some(crate::pipe::VerifyOutcome::Panic(p)) = &d.verify {
        ctx.violation(
            format!("{prop}/verify-panic {}", p.signature()),
            format!("verify() panicked at {}:{}: {}; input: {what} of base [{}]", p.file, p.line, p.msg, base.name()),
        );
    }
    if data_len <= 16 * 1024 {
        if d.usage.max_request > MAX_SINGLE_ALLOC {
            ctx.violation(
                format!("{prop}/oversized-allocation"),
                format!("a single allocation of {} bytes was requested for a {data_len}-byte input (honest peak {} bytes); input: {what} of base [{}]", d.usage.max_request, base.honest_usage().max_request, base.name()),
            );
        } else if d.usage.total > MAX_TOTAL_ALLOC {
            ctx.violation(
                format!("{prop}/excessive-total-allocation"),
                format!("{} bytes allocated in total for a {data_len}-byte input (honest total {}); input: {what} of base [{}]", d.usage.total, base.honest_usage().total, base.name()),
            );
        }
    }
}

#[derive(Clone, Copy, PartialEq, Eq, Debug)]
pub enum EnumKind {
    BitFlips,
    Truncations,
    Counts,
    /// self-consistent structural edits (wire::coordinated_fault), 16 variants per kind
    Coordinated,
}

/// (base index, item index) for a global run index, by prefix sums over the bases
pub struct EnumIndex {
    pub sizes: Vec<u64>,
}

impl EnumIndex {
    pub fn total(&self) -> u64 {
        self.sizes.iter().sum()
    }
    pub fn locate(&self, mut run: u64) -> Option<(usize, u64)> {
        for (b, s) in self.sizes.iter().enumerate() {
            if run < *s {
                return Some((b, run));
            }
            run -= *s;
        }
        None
    }
}

pub fn enum_sizes(kind: EnumKind, seed: u64, max_bases: usize) -> EnumIndex {
    let bs = bases(seed);
    EnumIndex {
        sizes: bs
            .iter()
            .take(max_bases)
            .map(|b| match kind {
                EnumKind::BitFlips => b.bytes().len() as u64 * 8,
                EnumKind::Truncations => b.bytes().len() as u64,
                EnumKind::Coordinated => (wire::COORDINATED_KINDS * 16) as u64,
                EnumKind::Counts => b
                    .layout()
                    .fields
                    .iter()
                    .filter(|f| f.kind == Kind::Count || f.kind == Kind::Tag)
                    .map(|f| wire::count_values(f.len, field_value(b.bytes(), f)).len() as u64)
                    .sum(),
            })
            .collect(),
    }
}

pub fn field_value(bytes: &[u8], f: &wire::Field) -> u64 {
    let mut v = 0u64;
    for i in 0..f.len.min(8) {
        v |= (bytes[f.off + i] as u64) << (8 * i);
    }
    v
}

/// the `item`-th enumerated mutation of a base
pub fn enum_mutation(kind: EnumKind, base: &dyn Base, item: u64) -> (String, Vec<u8>) {
    let bytes = base.bytes();
    match kind {
        EnumKind::BitFlips => {
            let mut out = bytes.to_vec();
            let (byte, bit) = ((item / 8) as usize, (item % 8) as u32);
            out[byte] ^= 1 << bit;
            let f = base.layout().fields.iter().find(|f| byte >= f.off && byte < f.off + f.len).map(|f| f.name.clone()).unwrap_or_default();
            (format!("bit {bit} of byte {byte} flipped (field {f})"), out)
        },
        EnumKind::Truncations => (format!("truncated to {item} of {} bytes", bytes.len()), bytes[..item as usize].to_vec()),
        EnumKind::Coordinated => match wire::coordinated_fault(bytes, base.layout(), (item / 16) as usize, (item % 16) as usize) {
            Some(r) => r,
            None => ("coordinated edit not applicable (unchanged bytes)".into(), bytes.to_vec()),
        },
        EnumKind::Counts => {
            let mut i = item;
            for f in base.layout().fields.iter().filter(|f| f.kind == Kind::Count || f.kind == Kind::Tag) {
                let cur = field_value(bytes, f);
                let vals = wire::count_values(f.len, cur);
                if (i as usize) < vals.len() {
                    let v = vals[i as usize];
                    return (format!("field {} set to {v} (was {cur})", f.name), wire::set_count(bytes, f, v));
                }
                i -= vals.len() as u64;
            }
            ("no such item".into(), bytes.to_vec())
        },
    }
}

struct EnumArm {
    kind: EnumKind,
    index: simcore::Keyed<(bool, u64), EnumIndex>,
    quick_bases: usize,
}

impl EnumArm {
    fn idx(&self, tier: Tier, seed: u64) -> &EnumIndex {
        self.index.get_or_init((tier == Tier::Quick, seed), || enum_sizes(self.kind, seed, if tier == Tier::Quick { self.quick_bases } else { usize::MAX }))
    }
}

impl Arm for EnumArm {
    fn name(&self) -> String {
        match self.kind {
            EnumKind::BitFlips => "all-bit-flips".into(),
            EnumKind::Truncations => "all-truncations".into(),
            EnumKind::Counts => "all-count-fields".into(),
            EnumKind::Coordinated => "all-coordinated-edits".into(),
        }
    }
    fn runs(&self, tier: Tier, seed: u64) -> u64 {
        self.idx(tier, seed).total()
    }
    fn exhaustive(&self) -> bool {
        true
    }
    fn prepare(&self, tier: Tier, seed: u64) {
        let _ = self.idx(tier, seed);
    }
    fn run(&self, info: &RunInfo, ch: &mut Chooser, ctx: &mut Ctx) {
        let Some((b, item)) = self.idx(info.tier, info.seed).locate(info.run) else { return };
        let base = &bases(info.seed)[b];
        let (what, data) = enum_mutation(self.kind, base.as_ref(), item);
        ctx.fault(match self.kind {
            EnumKind::BitFlips => "bit_flip",
            EnumKind::Truncations => "truncation_torn_write",
            EnumKind::Counts => "count_field_boundary_value",
            EnumKind::Coordinated => "coordinated_self_consistent_edit",
        });
        danger_zone(ch);
        let d = base.deliver(&data, false, Inputs::Matching, 0, ch, ctx);
        ctx.event_with("deliver", info.run ^ simcore::rng::fnv1a(format!("{:?}{:?}", d.parse, d.verify.as_ref().map(|v| v.short())).as_bytes()), || {
            format!("base [{}]: {what} -> parse {:?}, verify {}", base.name(), d.parse, d.verify.as_ref().map(|v| v.short()).unwrap_or("-".into()))
        });
        judge(ctx, "C06", base.as_ref(), &what, &d, data.len());
    }
}

/// Every honest proof of the option grid (trace length x blowup x folding x remainder degree)
/// delivered with its three FRI-relevant option bytes set to every other *valid* combination:
/// the verifier then follows a degree / layer schedule that the proof was not made for -
/// including schedules that fold a layer below two points or leave no remainder.
struct OptionsCross;

const ALT_BLOWUP: [u64; 5] = [2, 4, 8, 16, 128];
const ALT_FOLDING: [u64; 4] = [2, 4, 8, 16];
const ALT_RMAX: [u64; 7] = [0, 1, 3, 7, 15, 127, 255];
const ALTS: u64 = 5 * 4 * 7;

impl Arm for OptionsCross {
    fn name(&self) -> String {
        "options-cross".into()
    }
    fn runs(&self, _tier: Tier, _seed: u64) -> u64 {
        GRID_POINTS as u64 * ALTS
    }
    fn exhaustive(&self) -> bool {
        true
    }
    fn run(&self, info: &RunInfo, ch: &mut Chooser, ctx: &mut Ctx) {
        let g = (info.run / ALTS) as usize;
        let a = info.run % ALTS;
        let Some(base) = grid_base(info.seed, g) else {
            ctx.skipped = Some("grid_point_has_no_well_formed_schedule");
            return;
        };
        let (b2, f2, r2) = (ALT_BLOWUP[(a % 5) as usize], ALT_FOLDING[(a / 5 % 4) as usize], ALT_RMAX[(a / 20 % 7) as usize]);
        let lay = base.layout();
        let get = |n: &str| lay.fields.iter().find(|f| f.name == n);
        let (Some(fb), Some(ff), Some(fr)) = (get("ctx.opt.blowup"), get("ctx.opt.folding"), get("ctx.opt.remainder_max_degree")) else {
            panic!("harness: option fields not found in the layout");
        };
        let mut data = wire::set_count(base.bytes(), fb, b2);
        data = wire::set_count(&data, ff, f2);
        data = wire::set_count(&data, fr, r2);
        if data == base.bytes() {
            ctx.skipped = Some("identity");
            return;
        }
        let what = format!("options set to blowup {b2}, folding {f2}, remainder max degree {r2}");
        ctx.fault("valid_option_set_of_another_schedule");
        danger_zone(ch);
        let d = base.deliver(&data, false, Inputs::Matching, 0, ch, ctx);
        ctx.event_with("deliver", info.run ^ simcore::rng::fnv1a(format!("{:?}{:?}", d.parse, d.verify.as_ref().map(|v| v.short())).as_bytes()), || {
            format!("base [{}]: {what} -> parse {:?}, verify {}", base.name(), d.parse, d.verify.as_ref().map(|v| v.short()).unwrap_or("-".into()))
        });
        judge(ctx, "C06", base, &what, &d, data.len());
    }
}

struct SampledArm;

impl Arm for SampledArm {
    fn name(&self) -> String {
        "sampled-faults".into()
    }
    fn runs(&self, tier: Tier, _seed: u64) -> u64 {
        match tier {
            Tier::Quick => 60_000,
            Tier::Thorough => 1_500_000,
        }
    }
    fn prepare(&self, _tier: Tier, seed: u64) {
        let _ = bases(seed);
    }
    fn run(&self, info: &RunInfo, ch: &mut Chooser, ctx: &mut Ctx) {
        let bs = bases(info.seed);
        let b = ch.index("base", bs.len());
        let base = &bs[b];
        let other = bs[ch.index("base.other", bs.len())].bytes();
        let (mut what, mut data) = wire::sampled_fault(ch, base.bytes(), base.layout(), Some(other));
        ctx.fault("sampled_structural_or_blind_fault");
        if ch.chance("second.fault?", 1, 4) {
            // a pair of faults: the second one is aimed with the layout of the honest bytes
            let (w2, d2) = wire::sampled_fault(ch, &data, &wire::Layout { fields: vec![], components: vec![], total: data.len() }, None);
            what = format!("{what}; then {w2}");
            data = d2;
            ctx.fault("second_fault");
        }
        let streamed = ch.chance("deliver.streamed?", 1, 3);
        let inputs = if ch.chance("deliver.perturbed_inputs?", 1, 5) { Inputs::Perturbed } else { Inputs::Matching };
        let policy = ch.index("deliver.policy", 3);
        if streamed {
            ctx.fault("hostile_bytes_over_hostile_chunking");
        }
        danger_zone(ch);
        let d = base.deliver(&data, streamed, inputs, policy, ch, ctx);
        ctx.event_with("deliver", simcore::rng::fnv1a(format!("{what}{:?}{:?}", d.parse, d.verify.as_ref().map(|v| v.short())).as_bytes()), || {
            format!("base [{}]: {what} (streamed {streamed}, inputs {:?}, policy {policy}) -> parse {:?}, verify {}", base.name(), inputs, d.parse, d.verify.as_ref().map(|v| v.short()).unwrap_or("-".into()))
        });
        judge(ctx, "C06", base.as_ref(), &what, &d, data.len());
    }
}

/// Context / options / trace-info fields of a *freshly generated* honest proof set to boundary
/// values: the AIR shape (periodic cycles, exemptions, assertion kinds, aux segment) varies per
/// run, so that every assertion the air crate makes on proof-supplied parameters is reachable.
struct FreshContextArm;

impl Arm for FreshContextArm {
    fn name(&self) -> String {
        "fresh-case-context-edits".into()
    }
    fn runs(&self, tier: Tier, _seed: u64) -> u64 {
        match tier {
            Tier::Quick => 12_000,
            Tier::Thorough => 400_000,
        }
    }
    fn run(&self, _info: &RunInfo, ch: &mut Chooser, ctx: &mut Ctx) {
        let Some(base) = fresh_base(ch) else {
            ctx.skipped = Some("no_base_for_configuration");
            return;
        };
        let fields: Vec<&wire::Field> =
            base.layout().fields.iter().filter(|f| (f.kind == Kind::Count || f.kind == Kind::Tag) && f.name.starts_with("ctx.")).collect();
        if fields.is_empty() {
            ctx.skipped = Some("no_context_fields");
            return;
        }
        let mut data = base.bytes().to_vec();
        let mut what = String::new();
        let edits = 1 + ch.weighted("fresh.edits", &[6, 2, 1]);
        for _ in 0..edits {
            let f = fields[ch.index("fresh.field", fields.len())];
            let cur = field_value(&data, f);
            let vals = wire::count_values(f.len, cur);
            // small neighbours are the values that keep the rest of the proof parseable
            let v = if ch.chance("fresh.near?", 2, 3) { cur.wrapping_add([1u64, u64::MAX, 2, u64::MAX - 1][ch.index("fresh.delta", 4)]) & mask(f.len) } else { vals[ch.index("fresh.val", vals.len())] };
            data = wire::set_count(&data, f, v);
            what = format!("{what}{}field {} set to {v} (was {cur})", if what.is_empty() { "" } else { "; " }, f.name);
            ctx.fault("context_field_of_fresh_case");
        }
        let inputs = if ch.chance("deliver.perturbed_inputs?", 1, 8) { Inputs::Perturbed } else { Inputs::Matching };
        let policy = ch.index("deliver.policy", 3);
        danger_zone(ch);
        let d = base.deliver(&data, false, inputs, policy, ch, ctx);
        ctx.event_with("deliver", simcore::rng::fnv1a(format!("{}{what}{:?}{:?}", base.name(), d.parse, d.verify.as_ref().map(|v| v.short())).as_bytes()), || {
            format!("fresh base [{}]: {what} (inputs {:?}, policy {policy}) -> parse {:?}, verify {}", base.name(), inputs, d.parse, d.verify.as_ref().map(|v| v.short()).unwrap_or("-".into()))
        });
        judge(ctx, "C06", base.as_ref(), &what, &d, data.len());
    }
}

fn mask(len: usize) -> u64 {
    if len >= 8 {
        u64::MAX
    } else {
        (1u64 << (8 * len)) - 1
    }
}

/// the sampled arm with fewer runs, served by the overflow-checking build
struct SampledOvf;

impl Arm for SampledOvf {
    fn name(&self) -> String {
        "sampled-faults".into()
    }
    fn runs(&self, tier: Tier, _seed: u64) -> u64 {
        match tier {
            Tier::Quick => 30_000,
            Tier::Thorough => 600_000,
        }
    }
    fn prepare(&self, tier: Tier, seed: u64) {
        SampledArm.prepare(tier, seed)
    }
    fn run(&self, info: &RunInfo, ch: &mut Chooser, ctx: &mut Ctx) {
        SampledArm.run(info, ch, ctx)
    }
}

pub fn spec() -> CheckSpec {
    let iso = |a: Box<dyn Arm>| -> Box<dyn Arm> { Box::new(IsoArm { check_id: "C06", inner: a, timeout_s: 60, exe_env: None, alias: None }) };
    let arms: Vec<Box<dyn Arm>> = vec![
        iso(Box::new(EnumArm { kind: EnumKind::Counts, index: simcore::Keyed::new(), quick_bases: usize::MAX })),
        iso(Box::new(EnumArm { kind: EnumKind::Coordinated, index: simcore::Keyed::new(), quick_bases: usize::MAX })),
        iso(Box::new(EnumArm { kind: EnumKind::Truncations, index: simcore::Keyed::new(), quick_bases: usize::MAX })),
        iso(Box::new(EnumArm { kind: EnumKind::BitFlips, index: simcore::Keyed::new(), quick_bases: 12 })),
        iso(Box::new(SampledArm)),
        iso(Box::new(FreshContextArm)),
        iso(Box::new(OptionsCross)),
        Box::new(IsoArm { check_id: "C06", inner: Box::new(OptionsCross), timeout_s: 60, exe_env: Some("WFSIM_OVF"), alias: Some("options-cross-overflow-checked") }),
        // the same inputs in the overflow-checking build: arithmetic overflow that release builds
        // wrap silently shows up as a panic there
        Box::new(IsoArm {
            check_id: "C06",
            inner: Box::new(EnumArm { kind: EnumKind::Counts, index: simcore::Keyed::new(), quick_bases: usize::MAX }),
            timeout_s: 60,
            exe_env: Some("WFSIM_OVF"),
            alias: Some("all-count-fields-overflow-checked"),
        }),
        Box::new(IsoArm {
            check_id: "C06",
            inner: Box::new(EnumArm { kind: EnumKind::Coordinated, index: simcore::Keyed::new(), quick_bases: usize::MAX }),
            timeout_s: 60,
            exe_env: Some("WFSIM_OVF"),
            alias: Some("all-coordinated-edits-overflow-checked"),
        }),
        Box::new(IsoArm { check_id: "C06", inner: Box::new(SampledOvf), timeout_s: 60, exe_env: Some("WFSIM_OVF"), alias: Some("sampled-faults-overflow-checked") }),
    ];
    CheckSpec {
        id: "C06",
        level: "fault_enumeration",
        build: "serial (+ overflow-checking build for two arms)",
        rule: "bases = honest proofs of the protocol sim across every (field, hasher) pair, the three extensions and option / shape flavours (aux segment, wide trace, grinding), 0.5-4 KiB each. Enumerated completely per base: every length / count / size / tag field x all 256 values (one-byte fields) or {0, 1, 2, max/2, max/2+1, max-1, max, true+-1} (wider fields); 13 kinds x 16 variants of self-consistent structural edits (one limb of an element replaced by its alias modulo the field modulus, a surplus digest appended to a node vector of an opening, the last digest dropped from a node vector or the vector emptied, proof-of-work nonce moved by multiples of the field modulus, trace metadata of another length, OOD frame size with matching states, Lagrange frame supplied, one opened row more / fewer in every query set with num_unique_queries adjusted, one FRI query more / fewer, field modulus of another length, one commitment more / fewer, GKR proof of announced length, remainder of another size); every truncation offset (torn write); every single-bit flip (quick: the first 12 bases, thorough: all). Sampled: byte overwrites, trailing garbage, removed / duplicated / swapped components with and without fixing counters and length prefixes, blob growth / shrinkage, splices of two proofs, random fields, random strings, pairs of faults; context / options / trace-info fields of freshly generated proofs (AIR shape varies per run) set to neighbouring and boundary values; delivery by Proof::from_bytes or by Proof::read_from over ReadAdapter over a hostile-chunking simulated source; verification with matching or perturbed public inputs under three acceptance policies. options-cross (enumerated completely, also in the overflow-checking build): one honest proof per point of the grid trace length {8,16,32} x blowup {2,4,8} x folding {2,4,8,16} x remainder max degree {0,1,3,7} that has a well-formed FRI schedule, delivered with its blowup / folding / remainder option bytes set to every other valid combination (5 x 4 x 7), so that the verifier follows a layer schedule the proof was not made for. Each case runs in an isolated worker with an allocation meter. Non-trivial = a fault fired (all runs); distinct = distinct event-log digests.".into(),
        interleaving_measure: "distinct (base, fault, delivery mode, chunking) histories".into(),
        real: vec!["Proof / Context / TraceInfo / ProofOptions / Commitments / Queries / OodFrame / FriProof deserializers", "winter-verifier verify() incl. VerifierChannel, composer, FRI verifier, Merkle batch verification", "utils::ReadAdapter on the streamed deliveries"],
        stub: vec!["the byte source (SimRead)", "SimAir (the AIR handed to verify(); asserts nothing itself)"],
        assumptions: vec![
            "oracle: the call returns Ok or Err; no panic; the worker survives (no abort / signal); it answers within 60 s; no single allocation above 16 MiB and no more than 64 MiB in total for inputs up to 16 KiB",
            "arithmetic overflow that release builds wrap silently is observed only by the overflow-checking build (profile ovf), see the C06 section of DESIGN.md",
        ],
        arms,
    }
}
