//! SimIO: the byte transport. `SimRead` / `SimWrite` implement std::io::{Read, Write}; every
//! chunk length and every fault is a taped choice.

use std::cell::{Cell, RefCell};
use std::io;

use simcore::{Chooser, Ctx};

pub struct World<'a> {
    pub ch: &'a mut Chooser,
    pub ctx: &'a mut Ctx,
}

#[derive(Clone, Copy, Debug, PartialEq, Eq)]
pub enum ChunkStyle {
    Full,
    One,
    FixedK,
    Uniform,
    /// lengths aimed at the operation in flight (need-1, need, need+1) and at the 256-byte
    /// buffer boundary
    Hunter,
    /// mixture decided per call
    Mixed,
}

pub const CHUNK_STYLES: [ChunkStyle; 6] =
    [ChunkStyle::Full, ChunkStyle::One, ChunkStyle::FixedK, ChunkStyle::Uniform, ChunkStyle::Hunter, ChunkStyle::Mixed];

#[derive(Clone, Copy, Debug, Default)]
pub struct ReadFaults {
    pub interrupted: bool,
    pub would_block: bool,
    pub other: bool,
    pub unexpected_eof: bool,
    pub transient_zero: bool,
    /// max number of faults per run
    pub budget: u32,
}

impl ReadFaults {
    pub fn any(&self) -> bool {
        self.budget > 0
            && (self.interrupted || self.would_block || self.other || self.unexpected_eof || self.transient_zero)
    }
}

/// State the scenario can look at while the adapter holds `&mut SimRead`.
#[derive(Default)]
pub struct ReadStats {
    pub handed_out: Cell<usize>,
    pub eof_reported: Cell<bool>,
    pub calls: Cell<u64>,
    pub calls_this_op: Cell<u32>,
    pub faults_this_op: Cell<u32>,
    pub zero_this_op: Cell<bool>,
    pub faults_total: Cell<u32>,
    /// bytes the operation in flight wants (hint for the boundary hunter)
    pub need: Cell<usize>,
}

impl ReadStats {
    pub fn begin_op(&self, need: usize) {
        self.calls_this_op.set(0);
        self.faults_this_op.set(0);
        self.zero_this_op.set(false);
        self.need.set(need);
    }
}

pub struct SimRead<'w, 'a> {
    pub w: &'w RefCell<World<'a>>,
    pub data: &'w [u8],
    pub pos: usize,
    pub style: ChunkStyle,
    pub k: usize,
    pub faults: ReadFaults,
    pub stats: &'w ReadStats,
}

impl<'w, 'a> SimRead<'w, 'a> {
    pub fn new(
        w: &'w RefCell<World<'a>>,
        data: &'w [u8],
        style: ChunkStyle,
        k: usize,
        faults: ReadFaults,
        stats: &'w ReadStats,
    ) -> Self {
        SimRead { w, data, pos: 0, style, k: k.max(1), faults, stats }
    }
}

impl<'w, 'a> io::Read for SimRead<'w, 'a> {
    fn read(&mut self, buf: &mut [u8]) -> io::Result<usize> {
        let mut guard = self.w.borrow_mut();
        let World { ch, ctx } = &mut *guard;
        let st = self.stats;
        st.calls.set(st.calls.get() + 1);
        st.calls_this_op.set(st.calls_this_op.get() + 1);
        if buf.is_empty() {
            ctx.event("src.read.emptybuf", self.pos as u64, 0);
            return Ok(0);
        }
        let remaining = self.data.len() - self.pos;

        // fault? biased to the second or later source read of one operation, i.e. while the
        // adapter holds in-flight state
        if self.faults.any() && st.faults_total.get() < self.faults.budget {
            let later = st.calls_this_op.get() >= 2;
            let fire = if later { ch.chance("src.fault?", 1, 3) } else { ch.chance("src.fault?", 1, 12) };
            if fire {
                let mut kinds: Vec<&'static str> = vec![];
                if self.faults.interrupted {
                    kinds.push("interrupted");
                }
                if self.faults.would_block {
                    kinds.push("would_block");
                }
                if self.faults.other {
                    kinds.push("io_other");
                }
                if self.faults.unexpected_eof {
                    kinds.push("io_unexpected_eof");
                }
                if self.faults.transient_zero && remaining > 0 {
                    kinds.push("transient_zero");
                }
                if !kinds.is_empty() {
                    let kind = kinds[ch.index("src.fault.kind", kinds.len())];
                    st.faults_total.set(st.faults_total.get() + 1);
                    st.faults_this_op.set(st.faults_this_op.get() + 1);
                    ctx.fault(kind);
                    ctx.event_with("src.fault", self.pos as u64, || format!("{kind} at stream offset {}", self.pos));
                    if later {
                        ctx.probe("fault_inside_operation");
                    }
                    return match kind {
                        "interrupted" => Err(io::Error::new(io::ErrorKind::Interrupted, "sim: EINTR")),
                        "would_block" => Err(io::Error::new(io::ErrorKind::WouldBlock, "sim: EAGAIN")),
                        "io_other" => Err(io::Error::new(io::ErrorKind::Other, "sim: EIO")),
                        "io_unexpected_eof" => Err(io::Error::new(io::ErrorKind::UnexpectedEof, "sim: eof")),
                        _ => {
                            st.zero_this_op.set(true);
                            Ok(0)
                        },
                    };
                }
            }
        }

        if remaining == 0 {
            st.eof_reported.set(true);
            st.zero_this_op.set(true);
            ctx.event("src.read.eof", self.pos as u64, 0);
            if st.need.get() > 1 {
                ctx.probe("eof_seen_inside_multibyte_op");
            }
            return Ok(0);
        }
        let max = buf.len().min(remaining);
        let style = if self.style == ChunkStyle::Mixed {
            [ChunkStyle::Full, ChunkStyle::One, ChunkStyle::Uniform, ChunkStyle::Hunter][ch.index("src.mixstyle", 4)]
        } else {
            self.style
        };
        let n = match style {
            ChunkStyle::Full => max,
            ChunkStyle::One => 1,
            ChunkStyle::FixedK => self.k.min(max),
            ChunkStyle::Uniform => 1 + ch.index("src.chunk", max),
            ChunkStyle::Hunter | ChunkStyle::Mixed => {
                let need = st.need.get().max(1);
                // candidates around what the op needs and around the 256-byte refill boundary
                let to_256 = 256 - (self.pos % 256);
                let cands = [
                    need.saturating_sub(1).max(1),
                    need,
                    need + 1,
                    1,
                    2,
                    to_256,
                    to_256.saturating_sub(1).max(1),
                    to_256 + 1,
                    255,
                    max,
                ];
                cands[ch.index("src.hunt", cands.len())].clamp(1, max)
            },
        };
        buf[..n].copy_from_slice(&self.data[self.pos..self.pos + n]);
        self.pos += n;
        st.handed_out.set(self.pos);
        if self.pos % 256 == 0 {
            ctx.probe("chunk_ends_on_256_boundary");
        }
        if st.calls_this_op.get() >= 2 {
            ctx.probe("refill_inside_operation");
        }
        if n < max {
            ctx.nontrivial = true;
        }
        ctx.event("src.read", (self.pos - n) as u64, n as u64);
        Ok(n)
    }
}

// SIM WRITE
// ------------------------------------------------------------------------------------------------

#[derive(Clone, Copy, Debug, Default)]
pub struct WriteFaults {
    pub short: bool,
    pub interrupted: bool,
    /// hard error after this many bytes (documented to panic in ByteWriter)
    pub fail_after: Option<usize>,
}

pub struct SimWrite<'w, 'a> {
    pub w: &'w RefCell<World<'a>>,
    pub out: Vec<u8>,
    pub faults: WriteFaults,
}

impl<'w, 'a> io::Write for SimWrite<'w, 'a> {
    fn write(&mut self, buf: &[u8]) -> io::Result<usize> {
        let mut guard = self.w.borrow_mut();
        let World { ch, ctx } = &mut *guard;
        if buf.is_empty() {
            return Ok(0);
        }
        if let Some(limit) = self.faults.fail_after {
            if self.out.len() >= limit {
                ctx.fault("write_hard_error");
                return Err(io::Error::new(io::ErrorKind::Other, "sim: ENOSPC"));
            }
        }
        if self.faults.interrupted && ch.chance("sink.eintr?", 1, 6) {
            ctx.fault("write_interrupted");
            return Err(io::Error::new(io::ErrorKind::Interrupted, "sim: EINTR"));
        }
        let mut n = buf.len();
        if self.faults.short && buf.len() > 1 && ch.chance("sink.short?", 1, 2) {
            n = 1 + ch.index("sink.len", buf.len() - 1);
            ctx.fault("short_write");
        }
        if let Some(limit) = self.faults.fail_after {
            n = n.min(limit - self.out.len()).max(1);
        }
        self.out.extend_from_slice(&buf[..n]);
        ctx.event("sink.write", self.out.len() as u64, n as u64);
        Ok(n)
    }

    fn flush(&mut self) -> io::Result<()> {
        Ok(())
    }
}
