//! wfsim: deterministic simulation harness for Nashtare/winterfell.
//! usage: wfsim <property> quick|thorough | --replay <file> | --digest <n> | --one <arm> <run>

mod c01;
mod c02;
mod c03;
mod c03_adaptive;
mod c04;
mod c05;
mod c06;
mod c10;
mod c12;
mod coin;
mod c13;
mod c14;
mod c19;
mod dispatch;
mod fri_sim;
mod hostile;
mod pipe;
mod proto;
mod simio;
mod wire;

#[global_allocator]
static ALLOC: simcore::meter::Meter = simcore::meter::Meter;

fn main() {
    let args: Vec<String> = std::env::args().skip(1).collect();
    let Some(id) = args.first() else {
        eprintln!("usage: wfsim <property> quick|thorough|--replay <file>");
        std::process::exit(2);
    };
    if id == "C14" && args.get(1).map(|s| s.as_str()) == Some("--golden") {
        c14::golden_main();
    }
    let spec = match id.as_str() {
        "C01" => c01::spec(),
        "C02" => c02::spec(),
        "C03" => c03::spec(),
        "C04" => c04::spec(),
        "C05" => c05::spec_c05(),
        "C06" => c06::spec(),
        "C15" => c05::spec_c15(),
        "C19" => c19::spec(),
        "C10" => c10::spec(),
        "C12" => c12::spec(),
        "C13" => c13::spec(),
        "C14" => c14::spec(),
        _ => {
            eprintln!("HARNESS-ERROR unknown property {id} for this build");
            std::process::exit(2);
        },
    };
    let code = simcore::main_for(spec, &args[1..]);
    std::process::exit(code);
}
