//! C02 — soundness against a faulty prover node and against misdirected proofs.
//! F1: one cell of the prover's stored main trace is corrupted before it is committed.
//! F2: one cell of the auxiliary trace is corrupted inside the prover before it is committed.
//! F3: the verifier is given perturbed public inputs. F4: the verifier's acceptance policy
//! does not contain the proof's parameters.
//! Oracle: the reference validity predicate decides whether the corrupted trace is still valid;
//! invalid => never accepted; still valid => must be accepted.

use air::ProofOptions;
use crypto::{DefaultRandomCoin, ElementHasher};
use simcore::{Arm, CheckSpec, Chooser, Ctx, FnArm, RunInfo, Tier};
use verifier::AcceptableOptions;

use crate::dispatch::*;
use crate::pipe::*;
use crate::proto::*;

#[derive(Clone, Copy, PartialEq, Eq, Debug)]
enum Mode {
    Targeted,
    EnumCells,
}

struct C02Job<'a> {
    ch: &'a mut Chooser,
    ctx: &'a mut Ctx,
    lim: GenLimits,
    cfg: Cfg,
    mode: Mode,
}

impl<'a> Job for C02Job<'a> {
    type Out = ();
    fn run<B: SimField, H: ElementHasher<BaseField = B> + Send + Sync + 'static>(self) {
        run::<B, H>(self.ch, self.ctx, &self.lim, self.cfg, self.mode)
    }
}

fn step_class(shape: &Shape, step: usize) -> &'static str {
    let n = shape.len();
    let e = shape.exemptions;
    if step == 0 {
        "first-step"
    } else if step == n - 1 {
        "last-step"
    } else if step + 1 == n - e {
        "last-enforced-transition-source"
    } else if step == n - e {
        "last-enforced-transition-target"
    } else if step > n - e {
        "exempt-zone"
    } else {
        "interior"
    }
}

/// Proves from `rows` (possibly corrupted) and returns the verifier's verdict, directly and after
/// the byte round trip. None = the prover refused (error or panic).
fn prove_and_verify<B: SimField, H: ElementHasher<BaseField = B> + Send + Sync + 'static>(
    case: &Case<B>,
    rows: &[Vec<B>],
    aux_fault: Option<AuxFault>,
) -> Option<(VerifyOutcome, VerifyOutcome)> {
    let (out, _) = prove::<B, H, DefaultRandomCoin<H>>(case, rows, aux_fault);
    match out {
        ProveOutcome::Ok(p) => {
            let bytes = proof_bytes(&p);
            let v1 = verify_with::<B, H, DefaultRandomCoin<H>>((*p).clone(), case.inputs.clone(), &min_sec0());
            let v2 = match simcore::guard(|| air::proof::Proof::from_bytes(&bytes)) {
                Ok(Ok(p2)) => verify_with::<B, H, DefaultRandomCoin<H>>(p2, case.inputs.clone(), &min_sec0()),
                Ok(Err(e)) => VerifyOutcome::Reject(format!("parse:{}", variant_name(&format!("{:?}", e)))),
                Err(pi) => VerifyOutcome::Panic(pi),
            };
            Some((v1, v2))
        },
        _ => None,
    }
}

fn check_cell<B: SimField, H: ElementHasher<BaseField = B> + Send + Sync + 'static>(
    ctx: &mut Ctx,
    cfg: Cfg,
    case: &Case<B>,
    col: usize,
    step: usize,
    delta: u64,
) {
    let mut rows = case.rows.clone();
    rows[step][col] += felt::<B>(delta.max(1));
    let bad = main_violations(&case.inputs, &rows);
    let invalid = !bad.is_empty();
    ctx.fault(if invalid { "F1_main_cell_corrupted_invalidating" } else { "F1_main_cell_corrupted_still_valid" });
    ctx.probe(match step_class(&case.shape, step) {
        "first-step" => "F1_at_first_step",
        "last-step" => "F1_at_last_step",
        "last-enforced-transition-source" => "F1_at_last_enforced_source",
        "last-enforced-transition-target" => "F1_at_last_enforced_target",
        "exempt-zone" => "F1_in_exempt_zone",
        _ => "F1_interior",
    });
    let res = prove_and_verify::<B, H>(case, &rows, None);
    let verdict = match &res {
        None => "prover-refused".to_string(),
        Some((a, b)) => format!("{} / {}", a.short(), b.short()),
    };
    ctx.event_with("F1", (col * 100_000 + step) as u64 ^ simcore::rng::fnv1a(verdict.as_bytes()), || {
        format!("main[{col}][{step}] += {delta} ({}); reference predicate: {}; verdict {verdict}", step_class(&case.shape, step), if invalid { format!("INVALID {:?}", &bad[..bad.len().min(2)]) } else { "still valid".into() })
    });
    let ctxt = || format!("{:?} {:?} shape {}", cfg, case.options, case.shape.describe());
    if invalid {
        if let Some((a, b)) = &res {
            if a.accepted() || b.accepted() {
                let what = &bad[0].0;
                let kind = if what.starts_with("rule") {
                    "transition".to_string()
                } else {
                    let k: usize = what.trim_start_matches("assertion").parse().unwrap_or(0);
                    format!("{:?}-assertion", case.shape.assertions[k].kind)
                };
                ctx.violation(
                    format!("C02/F1/invalid-trace-accepted {kind} {}", step_class(&case.shape, step)),
                    format!("main[{col}][{step}] corrupted; the reference predicate reports {:?} violated, yet the verifier accepted ({verdict}); {}", &bad[..bad.len().min(3)], ctxt()),
                );
            }
        }
    } else {
        match &res {
            None => ctx.violation(
                format!("C02/F1/valid-trace-prover-failed {}", step_class(&case.shape, step)),
                format!("main[{col}][{step}] changed but the trace is still valid (only exempt transitions, no asserted cell); the prover failed; {}", ctxt()),
            ),
            Some((a, b)) if !a.accepted() || !b.accepted() => ctx.violation(
                format!("C02/F1/valid-trace-rejected {}", step_class(&case.shape, step)),
                format!("main[{col}][{step}] changed but the trace is still valid; verdict {verdict}; {}", ctxt()),
            ),
            _ => {},
        }
    }
}

fn run<B: SimField, H: ElementHasher<BaseField = B> + Send + Sync + 'static>(
    ch: &mut Chooser,
    ctx: &mut Ctx,
    lim: &GenLimits,
    cfg: Cfg,
    mode: Mode,
) {
    let case = gen_case::<B>(ch, lim);
    let n = case.shape.len();
    let w = case.shape.width;
    let e = case.shape.exemptions;
    ctx.event_with("case", simcore::rng::fnv1a(format!("{:?}{:?}{:?}", cfg, case.shape, case.options).as_bytes()), || {
        format!("{:?} {:?}; shape: {}", cfg, case.options, case.shape.describe())
    });

    // baseline: the fault-free run of this very case must succeed, otherwise the failure
    // belongs to C01 and this run is skipped
    let base = prove_and_verify::<B, H>(&case, &case.rows, None);
    match &base {
        Some((a, b)) if a.accepted() && b.accepted() => {},
        _ => {
            ctx.skipped = Some("baseline_failed");
            return;
        },
    }

    if mode == Mode::EnumCells {
        for col in 0..w {
            for step in 0..n {
                check_cell::<B, H>(ctx, cfg, &case, col, step, 1);
            }
        }
        ctx.probe_n("cells_enumerated", (w * n) as u64);
        return;
    }

    let kind = ch.weighted("fault.kind", &[5, if case.shape.aux.is_some() { 4 } else { 0 }, 3, 1, 3, 3, 2]);
    let ctxt = |case: &Case<B>| format!("{:?} {:?} shape {}", cfg, case.options, case.shape.describe());
    match kind {
        0 => {
            // F1 aimed at the positions the property lists
            let mut steps = vec![0, n - e - 1, n - e, (n - e + 1).min(n - 1), n - 1];
            let mut cols: Vec<usize> = vec![];
            for r in &case.shape.rules {
                cols.push(r.col());
            }
            for a in &case.shape.assertions {
                cols.push(a.col);
                for s in a.steps(n) {
                    steps.push(s);
                    steps.push((s + 1) % n);
                    steps.push((s + n - 1) % n);
                }
            }
            let (col, step) = if ch.chance("F1.uniform?", 1, 3) {
                (ch.index("F1.col", w), ch.index("F1.step", n))
            } else {
                let step = steps[ch.index("F1.stepsel", steps.len())];
                let col = if ch.chance("F1.anycol?", 1, 4) { ch.index("F1.col", w) } else { cols[ch.index("F1.colsel", cols.len())] };
                (col, step)
            };
            let delta = 1 + ch.pick("F1.delta", 1 << 30);
            check_cell::<B, H>(ctx, cfg, &case, col, step, delta);
        },
        1 => {
            // F2: auxiliary cell
            let aux = case.shape.aux.clone().unwrap();
            let col = ch.index("F2.col", aux.width);
            let mut steps = vec![0, 1, n - e - 1, n - e, (n - e + 1).min(n - 1), n - 1, n / 2];
            // asserted steps of an auxiliary sequence assertion that lie in the exempt zone, and
            // their neighbours
            if let Some(a) = aux.asserts.iter().find(|a| a.col == col) {
                for s in a.steps(n).into_iter().filter(|s| *s > n - e) {
                    steps.push(s);
                    steps.push((s + 1).min(n - 1));
                    steps.push(s - 1);
                }
            }
            let step = if ch.chance("F2.uniform?", 1, 3) { ch.index("F2.step", n) } else { steps[ch.index("F2.stepsel", steps.len())] };
            let delta = 1 + ch.pick("F2.delta", 1 << 30);
            let is_lagrange = aux.lagrange && col == aux.width - 1;
            // plain aux column j: cell (j, s) is constrained iff s == 0 (assertion), or the
            // transition into s is enforced (s-1 < n-e), or the transition out of s is (s < n-e)
            // or an auxiliary sequence assertion names it
            let invalid = is_lagrange || step == 0 || step < n - e + 1 || aux.asserted(col, step, n);
            ctx.fault(if invalid { "F2_aux_cell_corrupted_invalidating" } else { "F2_aux_cell_corrupted_still_valid" });
            let res = prove_and_verify::<B, H>(&case, &case.rows, Some(AuxFault { col, step, delta, neg: false }));
            let verdict = match &res {
                None => "prover-refused".to_string(),
                Some((a, b)) => format!("{} / {}", a.short(), b.short()),
            };
            ctx.event_with("F2", (col * 100_000 + step) as u64 ^ simcore::rng::fnv1a(verdict.as_bytes()), || {
                format!("aux[{col}][{step}] += {delta} (lagrange column: {is_lagrange}); expected {}; verdict {verdict}", if invalid { "INVALID" } else { "still valid" })
            });
            if invalid {
                if let Some((a, b)) = &res {
                    if a.accepted() || b.accepted() {
                        ctx.violation(
                            format!("C02/F2/invalid-aux-trace-accepted {} {}", if is_lagrange { "lagrange" } else if col == 0 { "running-product" } else { "running-sum" }, step_class(&case.shape, step)),
                            format!("aux[{col}][{step}] corrupted before commitment, verifier accepted ({verdict}); {}", ctxt(&case)),
                        );
                    }
                }
            } else {
                match &res {
                    Some((a, b)) if a.accepted() && b.accepted() => {},
                    _ => ctx.violation(
                        format!("C02/F2/valid-aux-trace-not-accepted {}", step_class(&case.shape, step)),
                        format!("aux[{col}][{step}] changed in the exempt zone only, yet {verdict}; {}", ctxt(&case)),
                    ),
                }
            }
        },
        2 => {
            // F3: the verifier checks the honest proof against perturbed public inputs
            let (out, _) = prove::<B, H, DefaultRandomCoin<H>>(&case, &case.rows, None);
            let ProveOutcome::Ok(proof) = out else {
                ctx.skipped = Some("baseline_failed");
                return;
            };
            let mut inputs = case.inputs.clone();
            let what = match ch.weighted("F3.what", &[5, 2, 2, 2, 2, 1]) {
                0 => {
                    let a = ch.index("F3.assertion", inputs.values.len());
                    let j = ch.index("F3.value", inputs.values[a].len());
                    inputs.values[a][j] += felt::<B>(1 + ch.pick("F3.delta", 1 << 20));
                    ctx.probe(match case.shape.assertions[a].kind {
                        AssertKind::Single => "F3_single_assertion_value",
                        AssertKind::Periodic => "F3_periodic_assertion_value",
                        AssertKind::Sequence => "F3_sequence_assertion_value",
                    });
                    "asserted-value"
                },
                1 => {
                    let max_ex = n / 2 + 1;
                    inputs.shape.exemptions = if e < max_ex && ch.chance("F3.exup?", 1, 2) { e + 1 } else if e > 1 { e - 1 } else { e + 1 };
                    "exemptions"
                },
                2 => {
                    let r = ch.index("F3.rule", inputs.shape.rules.len());
                    match &mut inputs.shape.rules[r] {
                        Rule::Pow { k, .. } => *k += 1,
                        Rule::Lin { k, .. } => *k += 1,
                        Rule::Prod { c, .. } => *c = (*c + 1) % w,
                        Rule::PowPeriodic { b, .. } => *b = (*b + 1) % w,
                        Rule::Const { col } => inputs.shape.rules[r] = Rule::Lin { col: *col, a: *col, k: 1 },
                    }
                    "rule-parameter"
                },
                3 => {
                    let a = ch.index("F3.assertion", inputs.shape.assertions.len());
                    let spec = &mut inputs.shape.assertions[a];
                    match spec.kind {
                        AssertKind::Single => spec.first = (spec.first + 1) % n,
                        _ => spec.first = (spec.first + 1) % spec.stride.max(1),
                    }
                    "assertion-step"
                },
                4 => {
                    if inputs.shape.periodic.is_empty() {
                        inputs.values[0][0] += B::ONE;
                        "asserted-value"
                    } else {
                        let p = ch.index("F3.periodic", inputs.shape.periodic.len());
                        let i = ch.index("F3.pidx", inputs.shape.periodic[p].len());
                        inputs.shape.periodic[p][i] += 1;
                        "periodic-value"
                    }
                },
                _ => {
                    let a = ch.index("F3.assertion", inputs.shape.assertions.len());
                    inputs.shape.assertions[a].col = (inputs.shape.assertions[a].col + 1) % w;
                    "assertion-column"
                },
            };
            if inputs == case.inputs {
                ctx.skipped = Some("perturbation_was_identity");
                return;
            }
            // A trace whose rows are all identical yields a proof whose content does not depend
            // on any challenge (all quotients are zero, all Merkle leaves equal): such a proof is
            // a correct proof of every statement the constant trace satisfies, so acceptance for
            // a perturbed but still TRUE statement is not a soundness failure. Only that corner
            // is exempted.
            let all_rows_equal = case.rows.iter().all(|r| r == &case.rows[0]);
            if all_rows_equal && inputs.shape.width == case.shape.width && inputs.shape.log_len == case.shape.log_len && main_violations(&inputs, &case.rows).is_empty() {
                ctx.skipped = Some("constant_trace_perturbed_statement_still_true");
                return;
            }
            ctx.fault("F3_public_input_perturbed");
            let dbg_rules = format!("{:?}", inputs.shape.rules);
            let same_elems = math::ToElements::<B>::to_elements(&inputs) == math::ToElements::<B>::to_elements(&case.inputs);
            let v = verify_with::<B, H, DefaultRandomCoin<H>>((*proof).clone(), inputs, &min_sec0());
            ctx.note(|| format!("rules given to verifier: {dbg_rules}; to_elements equal: {same_elems}"));
            ctx.event_with("F3", simcore::rng::fnv1a(v.short().as_bytes()), || format!("verifier given perturbed {what}: {}", v.short()));
            ctx.note(|| format!("rules proved: {:?}", case.inputs.shape.rules));
            if v.accepted() {
                ctx.violation(
                    format!("C02/F3/accepted-for-other-public-inputs {what}"),
                    format!("honest proof accepted although the verifier's {what} differs from the statement that was proved; {}", ctxt(&case)),
                );
            }
        },
        4 => {
            // F5: a Byzantine prover corrupts TWO cells with cancelling deltas (+d, -d) so that two
            // different constraints over the same divisor are violated by opposite amounts; the
            // verifier must still reject, because every constraint has its own random coefficient
            let d = 1 + ch.pick("F5.delta", 1 << 30);
            let t = n - e; // target row of the last enforced transition: row t is read only by exempt transitions
            let aux_plain = case.shape.aux.as_ref().map(|a| a.plain_cols()).unwrap_or(0);
            // same-step single assertions on different columns
            let mut same_step: Vec<(usize, usize)> = vec![];
            for (i, a) in case.shape.assertions.iter().enumerate() {
                for (j, b) in case.shape.assertions.iter().enumerate() {
                    if i < j && a.kind == AssertKind::Single && b.kind == AssertKind::Single && a.first == b.first && a.col != b.col {
                        same_step.push((i, j));
                    }
                }
            }
            let variant = ch.weighted(
                "F5.variant",
                &[if case.shape.rules.len() >= 2 { 3 } else { 0 }, if aux_plain >= 1 { 3 } else { 0 }, if aux_plain >= 2 { 2 } else { 0 }, if same_step.is_empty() { 0 } else { 3 }, 1],
            );
            let mut rows = case.rows.clone();
            let mut aux_fault = None;
            let what = match variant {
                0 => {
                    let i = ch.index("F5.rule_i", case.shape.rules.len());
                    let mut j = ch.index("F5.rule_j", case.shape.rules.len() - 1);
                    if j >= i {
                        j += 1;
                    }
                    rows[t][case.shape.rules[i].col()] += felt::<B>(d);
                    rows[t][case.shape.rules[j].col()] -= felt::<B>(d);
                    format!("main-transition-pair rules {i},{j} at row {t}")
                },
                1 => {
                    // main constraint i and auxiliary constraint j
                    let i = ch.index("F5.rule_i", case.shape.rules.len());
                    let j = if i < aux_plain && ch.chance("F5.other?", 1, 3) { ch.index("F5.aux_j", aux_plain) } else { i.min(aux_plain - 1) };
                    rows[t][case.shape.rules[i].col()] += felt::<B>(d);
                    aux_fault = Some(AuxFault { col: j, step: t, delta: d, neg: true });
                    format!("main-rule {i} / aux-constraint {j} pair at row {t}")
                },
                2 => {
                    // two auxiliary constraints: one through the main-cell route is impossible, so
                    // pair aux column j with main rule (j+1) % rules; covered by variant 1 otherwise
                    let j = ch.index("F5.aux_j", aux_plain);
                    let i = (j + 1) % case.shape.rules.len();
                    rows[t][case.shape.rules[i].col()] -= felt::<B>(d);
                    aux_fault = Some(AuxFault { col: j, step: t, delta: d, neg: false });
                    format!("aux-constraint {j} / main-rule {i} pair at row {t}")
                },
                3 => {
                    let (i, j) = same_step[ch.index("F5.pair", same_step.len())];
                    let (a, b) = (&case.shape.assertions[i], &case.shape.assertions[j]);
                    rows[a.first][a.col] += felt::<B>(d);
                    rows[b.first][b.col] -= felt::<B>(d);
                    format!("single-assertion pair {i},{j} at step {}", a.first)
                },
                _ => {
                    // first row: an asserted cell at step 0 and a transition source
                    rows[0][case.shape.rules[0].col()] += felt::<B>(d);
                    rows[1][case.shape.rules[0].col()] -= felt::<B>(d);
                    "rows 0 and 1 of a ruled column".to_string()
                },
            };
            let bad = main_violations(&case.inputs, &rows);
            if bad.is_empty() && aux_fault.is_none() {
                ctx.skipped = Some("paired_corruption_left_trace_valid");
                return;
            }
            ctx.fault("F5_paired_cancelling_corruption");
            let res = prove_and_verify::<B, H>(&case, &rows, aux_fault);
            let verdict = match &res {
                None => "prover-refused".to_string(),
                Some((a, b)) => format!("{} / {}", a.short(), b.short()),
            };
            ctx.event_with("F5", simcore::rng::fnv1a(format!("{what}{verdict}").as_bytes()), || format!("{what}, delta {d}: {verdict}"));
            if let Some((a, b)) = &res {
                if a.accepted() || b.accepted() {
                    let v = variant;
                    ctx.violation(
                        format!("C02/F5/cancelling-pair-accepted variant{v}"),
                        format!("two constraints violated by +{d} and -{d} ({what}); the verifier accepted ({verdict}): the two constraints do not have independent random coefficients; {}", ctxt(&case)),
                    );
                }
            }
        },
        5 => {
            // F6: pole cancellation between a transition constraint and a boundary constraint.
            // A Byzantine prover violates single assertion j at step 0 by d and transition
            // constraint k at step 0 by a = -d * n / E(1), E = product over the exemption points
            // (1 - g^(n-i)): the two rational functions then have opposite residues at x = 1, so
            // their sum is a polynomial exactly when the two constraints share their random
            // coefficient. The ratio needs no verifier randomness. Everything downstream of the
            // two cells is recomputed by forward execution so that nothing else is violated; the
            // statement keeps only its step-0 single assertions.
            let mut shape = case.shape.clone();
            shape.assertions.retain(|a| a.kind == AssertKind::Single && a.first == 0);
            if shape.assertions.is_empty() {
                shape.assertions.push(AssertSpec { kind: AssertKind::Single, col: 0, first: 0, stride: 0, count: 1 });
            }
            // (and no auxiliary sequence assertion: its partial sums would change with the rows)
            if let Some(a) = shape.aux.as_mut() {
                a.asserts.clear();
            }
            let c2 = Case { blowup: case.blowup, shape: shape.clone(), rows: case.rows.clone(), inputs: SimInputs::from_trace(&shape, &case.rows), options: case.options.clone() };
            match prove_and_verify::<B, H>(&c2, &c2.rows, None) {
                Some((a, b)) if a.accepted() && b.accepted() => {},
                _ => {
                    ctx.skipped = Some("baseline_failed");
                    return;
                },
            }
            let j = ch.index("F6.assertion", shape.assertions.len());
            let k = ch.index("F6.rule", shape.rules.len());
            let d = felt::<B>(1 + ch.pick("F6.delta", 1 << 30));
            let g = B::get_root_of_unity(shape.log_len);
            let mut e1 = B::ONE;
            for i in 1..=shape.exemptions {
                e1 *= B::ONE - g.exp(((n - i) as u64).into());
            }
            let a = -(d * felt::<B>(n as u64)) / e1;
            let mut rows = c2.rows.clone();
            rows[0][shape.assertions[j].col] += d;
            for i in 0..n - 1 {
                let periodic: Vec<B> = shape.periodic.iter().map(|p| felt::<B>(p[i % p.len()])).collect();
                let cur = rows[i].clone();
                for (r, rule) in shape.rules.iter().enumerate() {
                    let mut v = rule.apply(&cur, &periodic);
                    if i == 0 && r == k {
                        v += a;
                    }
                    rows[i + 1][rule.col()] = v;
                }
            }
            let bad = main_violations(&c2.inputs, &rows);
            ctx.fault("F6_transition_boundary_pole_cancellation");
            let res = prove_and_verify::<B, H>(&c2, &rows, None);
            let verdict = match &res {
                None => "prover-refused".to_string(),
                Some((x, y)) => format!("{} / {}", x.short(), y.short()),
            };
            ctx.event_with("F6", simcore::rng::fnv1a(format!("{j}{k}{verdict}").as_bytes()), || {
                format!("assertion {j} (col {}) violated by d and rule {k} violated at step 0 by -d*n/E(1); reference predicate: {:?}; verdict {verdict}", shape.assertions[j].col, &bad[..bad.len().min(3)])
            });
            if bad.is_empty() {
                ctx.skipped = Some("crafted_trace_happens_to_be_valid");
                return;
            }
            if let Some((x, y)) = &res {
                if x.accepted() || y.accepted() {
                    ctx.violation(
                        "C02/F6/pole-cancellation-accepted",
                        format!("a trace violating assertion {j} and transition constraint {k} at step 0 with residues that cancel was accepted ({verdict}): the two constraints share their random coefficient; {}", ctxt(&c2)),
                    );
                }
            }
        },
        6 => {
            // F7: the STATEMENT names the cells of one of its assertions a second time with other
            // values (both parties are given this statement). The trace satisfies the first-listed
            // assertion and violates the second: it does not satisfy the statement. The library
            // refuses such a statement (overlap panic in Air / boundary-constraint construction -
            // a refusal, not an acceptance); what must never happen is that one of the two
            // assertions is silently dropped and the proof accepted.
            let mut shape = case.shape.clone();
            let k = ch.index("F7.assertion", shape.assertions.len());
            let dup = shape.assertions[k].clone();
            let first_listed_true = ch.chance("F7.true_first?", 2, 3);
            let mut inputs = case.inputs.clone();
            let mut wrong = inputs.values[k].clone();
            let i = ch.index("F7.value", wrong.len());
            wrong[i] += felt::<B>(1 + ch.pick("F7.delta", 1 << 30));
            if first_listed_true {
                shape.assertions.push(dup);
                inputs.values.push(wrong);
            } else {
                shape.assertions.insert(0, dup);
                inputs.values.insert(0, wrong);
            }
            inputs.shape = shape.clone();
            let c2 = Case { blowup: case.blowup, shape, rows: case.rows.clone(), inputs, options: case.options.clone() };
            if main_violations(&c2.inputs, &c2.rows).is_empty() {
                panic!("harness: the conflicting statement is satisfied");
            }
            ctx.fault("F7_statement_repeats_an_assertion_with_other_values");
            let res = prove_and_verify::<B, H>(&c2, &c2.rows, None);
            let verdict = match &res {
                None => "prover-refused".to_string(),
                Some((a, b)) => format!("{} / {}", a.short(), b.short()),
            };
            ctx.event_with("F7", k as u64 ^ simcore::rng::fnv1a(verdict.as_bytes()), || format!("assertion {k} repeated with another value (true one listed first: {first_listed_true}): {verdict}"));
            if let Some((a, b)) = &res {
                if a.accepted() || b.accepted() {
                    ctx.violation(
                        format!("C02/F7/conflicting-assertion-dropped {}", if first_listed_true { "later-one" } else { "earlier-one" }),
                        format!("the statement asserts the same cells twice with different values; the trace violates one of the two, yet the proof was accepted ({verdict}): an assertion was silently dropped; {}", ctxt(&c2)),
                    );
                }
            }
        },
        _ => {
            // F4: acceptance policy does not contain the proof's parameters
            let (out, _) = prove::<B, H, DefaultRandomCoin<H>>(&case, &case.rows, None);
            let ProveOutcome::Ok(proof) = out else {
                ctx.skipped = Some("baseline_failed");
                return;
            };
            let o = &case.options;
            let other = if o.num_queries() > 1 {
                ProofOptions::new(o.num_queries() - 1, o.blowup_factor(), o.grinding_factor(), o.field_extension(), 2, 0)
            } else {
                ProofOptions::new(2, o.blowup_factor(), o.grinding_factor(), o.field_extension(), 2, 0)
            };
            ctx.fault("F4_policy_excludes_proof_options");
            let policies = [
                AcceptableOptions::OptionSet(vec![other.clone()]),
                AcceptableOptions::OptionSet(vec![]),
                AcceptableOptions::MinConjecturedSecurity(10_000),
                AcceptableOptions::MinProvenSecurity(10_000),
            ];
            let k = ch.index("F4.policy", policies.len());
            let v = verify_with::<B, H, DefaultRandomCoin<H>>((*proof).clone(), case.inputs.clone(), &policies[k]);
            ctx.event_with("F4", k as u64 ^ simcore::rng::fnv1a(v.short().as_bytes()), || format!("policy #{k}: {}", v.short()));
            if v.accepted() {
                ctx.violation(format!("C02/F4/accepted-outside-policy {k}"), format!("proof accepted although the acceptance policy #{k} excludes its parameters; {}", ctxt(&case)));
            }
            // control: a policy that does contain the options must accept
            let v = verify_with::<B, H, DefaultRandomCoin<H>>((*proof).clone(), case.inputs.clone(), &AcceptableOptions::OptionSet(vec![other, case.options.clone()]));
            if !v.accepted() {
                ctx.violation("C02/F4/rejected-inside-policy", format!("proof rejected ({}) although the option set contains its parameters; {}", v.short(), ctxt(&case)));
            }
        },
    }
}

fn scenario(mode: Mode, info: &RunInfo, ch: &mut Chooser, ctx: &mut Ctx) {
    let thorough = info.tier == Tier::Thorough;
    let cfg = gen_cfg(ch, thorough && mode == Mode::Targeted);
    let lim = match mode {
        Mode::EnumCells => GenLimits { max_log_len: 5, max_width: 6, max_grinding: 0, allow_aux: false },
        Mode::Targeted => {
            if is_rescue(cfg) {
                GenLimits { max_log_len: 5, max_width: 12, max_grinding: 0, allow_aux: true }
            } else {
                GenLimits { max_log_len: if thorough { 9 } else { 7 }, max_width: 40, max_grinding: 2, allow_aux: true }
            }
        },
    };
    dispatch(cfg, C02Job { ch, ctx, lim, cfg, mode });
}

pub fn spec() -> CheckSpec {
    let arms: Vec<Box<dyn Arm>> = vec![
        Box::new(FnArm { name: "targeted", quick: 5000, thorough: 150_000, f: |i: &RunInfo, c: &mut Chooser, x: &mut Ctx| scenario(Mode::Targeted, i, c, x) }),
        Box::new(FnArm { name: "enum-cells", quick: 150, thorough: 3000, f: |i: &RunInfo, c: &mut Chooser, x: &mut Ctx| scenario(Mode::EnumCells, i, c, x) }),
    ];
    CheckSpec {
        id: "C02",
        level: "exploration",
        build: "serial",
        rule: "one run = one generated case (as C01) whose fault-free baseline is first confirmed, then one injected fault: F1 a cell (column, step) of the prover's stored main trace changed before commitment (aimed at step 0, the last enforced transition, both sides of the exemption boundary, n-1, every asserted step and its neighbours, or uniform); F2 the same for an auxiliary-trace cell inside the prover node (incl. the Lagrange column); F5 two cells corrupted by cancelling deltas so that two constraints over the same divisor are violated by opposite amounts (main/main, main/aux, same-step assertions); F6 a transition and a boundary constraint violated at step 0 with residues that cancel when they share a coefficient; F3 one public input of the verifier perturbed (asserted value, exemption count, rule parameter, assertion step / column, periodic value); F4 an acceptance policy that excludes the proof's parameters; F7 a statement that names the cells of one assertion twice with different values (the library may refuse it; it must not drop one of the two and accept). The enum-cells arm corrupts EVERY cell of small traces (n<=32, w<=6) in turn. Non-trivial = a fault fired; distinct = distinct event-log digests.".into(),
        interleaving_measure: "distinct (case, fault kind, fault position, verdict) histories".into(),
        real: vec!["winter-prover (release profile: its debug-only trace validation is off, as shipped)", "winter-verifier, winter-air, winter-fri, winter-crypto, winter-math"],
        stub: vec!["the fault points are the harness' Prover impl (trace handed to prove(); build_aux_trace)"],
        assumptions: vec![
            "oracle = the harness' reference validity predicate (direct loop over rules / assertions); a corruption that leaves the trace valid must still be accepted",
            "false-accept probability of an honest-but-faulty prover is about degree/|F| <= 2^-50 per run; no flakiness budget is used",
            "a verifier panic counts as 'not accepted' here and is reported under C06",
        ],
        arms,
    }
}
