//! Protocol sim: a parametric computation family (`SimAir`), its prover node (`SimProver`), the
//! workload generators (shape, trace, options) and the reference validity predicate.

use std::cell::RefCell;
use std::marker::PhantomData;

use air::{
    Air, AirContext, Assertion, AuxRandElements, ConstraintCompositionCoefficients, EvaluationFrame,
    FieldExtension, GkrVerifier, LagrangeKernelRandElements, ProofOptions, TraceInfo,
    TransitionConstraintDegree,
};
use crypto::{ElementHasher, RandomCoin};
use math::{fields::CubeExtension, ExtensibleField, ExtensionOf, FieldElement, StarkField, ToElements};
use prover::{
    matrix::ColMatrix, DefaultConstraintEvaluator, DefaultTraceLde, Prover, StarkDomain, Trace, TraceLde,
    TracePolyTable,
};
use simcore::Chooser;

pub trait SimField: StarkField + ExtensibleField<2> + ExtensibleField<3> + 'static {}
impl<T: StarkField + ExtensibleField<2> + ExtensibleField<3> + 'static> SimField for T {}

pub fn felt<E: FieldElement>(x: u64) -> E {
    let two32 = E::from(1u32 << 16) * E::from(1u32 << 16);
    E::from((x >> 32) as u32) * two32 + E::from(x as u32)
}

// SHAPE
// ================================================================================================

#[derive(Clone, Debug, PartialEq, Eq)]
pub enum Rule {
    /// next[col] = cur[a]^d + k
    Pow { col: usize, a: usize, d: usize, k: u64 },
    /// next[col] = prod cur[f] + cur[c]
    Prod { col: usize, factors: Vec<usize>, c: usize },
    /// next[col] = cur[a]^d * periodic[pk] + cur[b]
    PowPeriodic { col: usize, a: usize, d: usize, pk: usize, b: usize },
    /// next[col] = cur[col]
    Const { col: usize },
    /// next[col] = k * cur[a]
    Lin { col: usize, a: usize, k: u64 },
}

impl Rule {
    pub fn col(&self) -> usize {
        match self {
            Rule::Pow { col, .. }
            | Rule::Prod { col, .. }
            | Rule::PowPeriodic { col, .. }
            | Rule::Const { col }
            | Rule::Lin { col, .. } => *col,
        }
    }

    /// base degree and the index of the periodic column it multiplies by (if any)
    pub fn degree(&self) -> (usize, Option<usize>) {
        match self {
            Rule::Pow { d, .. } => (*d, None),
            Rule::Prod { factors, .. } => (factors.len().max(1), None),
            Rule::PowPeriodic { d, pk, .. } => (*d, Some(*pk)),
            Rule::Const { .. } | Rule::Lin { .. } => (1, None),
        }
    }

    /// value the rule prescribes for next[col]
    pub fn apply<E: FieldElement>(&self, cur: &[E], periodic: &[E]) -> E {
        let g = |i: usize| cur.get(i).copied().unwrap_or(E::ZERO);
        let p = |i: usize| periodic.get(i).copied().unwrap_or(E::ZERO);
        match self {
            Rule::Pow { a, d, k, .. } => g(*a).exp((*d as u32).into()) + felt::<E>(*k),
            Rule::Prod { factors, c, .. } => {
                let mut acc = E::ONE;
                for f in factors {
                    acc *= g(*f);
                }
                acc + g(*c)
            },
            Rule::PowPeriodic { a, d, pk, b, .. } => g(*a).exp((*d as u32).into()) * p(*pk) + g(*b),
            Rule::Const { col } => g(*col),
            Rule::Lin { a, k, .. } => felt::<E>(*k) * g(*a),
        }
    }
}

#[derive(Clone, Debug, PartialEq, Eq)]
pub enum AssertKind {
    Single,
    Periodic,
    Sequence,
}

#[derive(Clone, Debug, PartialEq, Eq)]
pub struct AssertSpec {
    pub kind: AssertKind,
    pub col: usize,
    pub first: usize,
    pub stride: usize,
    pub count: usize,
}

impl AssertSpec {
    pub fn steps(&self, n: usize) -> Vec<usize> {
        match self.kind {
            AssertKind::Single => vec![self.first],
            AssertKind::Periodic => (0..n / self.stride).map(|i| self.first + i * self.stride).collect(),
            AssertKind::Sequence => (0..self.count).map(|i| self.first + i * self.stride).collect(),
        }
    }
}

/// A sequence assertion on a running-sum column j >= 1 of the auxiliary segment: at the steps
/// first + i * stride (i < n / stride) the column holds r_j * (sum of the source main column
/// over the rows before that step); the partial sums travel in the public inputs.
#[derive(Clone, Debug, PartialEq, Eq)]
pub struct AuxAssert {
    pub col: usize,
    pub first: usize,
    pub stride: usize,
}

impl AuxAssert {
    pub fn steps(&self, n: usize) -> Vec<usize> {
        (0..n / self.stride).map(|i| self.first + i * self.stride).collect()
    }
}

#[derive(Clone, Debug, PartialEq, Eq)]
pub struct AuxShape {
    /// number of auxiliary columns, Lagrange column (if any) included and last
    pub width: usize,
    pub num_rands: usize,
    pub lagrange: bool,
    /// the GKR proof that accompanies the Lagrange column has nothing in it (it serializes to zero
    /// bytes, like `type GkrProof = ()`); otherwise it carries log2 of the trace length
    pub gkr_empty: bool,
    /// sequence assertions on running-sum columns (at most one per column)
    pub asserts: Vec<AuxAssert>,
}

impl AuxShape {
    pub fn plain_cols(&self) -> usize {
        self.width - self.lagrange as usize
    }
    /// columns whose step-0 single assertion is replaced by a sequence assertion that starts at 0
    pub fn single_at_zero(&self, j: usize) -> bool {
        !self.asserts.iter().any(|a| a.col == j && a.first == 0)
    }
    pub fn num_assertions(&self) -> usize {
        (0..self.plain_cols().max(1)).filter(|j| self.single_at_zero(*j)).count() + self.asserts.len()
    }
    /// is the cell (col, step) named by an assertion?
    pub fn asserted(&self, col: usize, step: usize, n: usize) -> bool {
        (step == 0 && col < self.plain_cols()) || self.asserts.iter().any(|a| a.col == col && a.steps(n).contains(&step))
    }
}

#[derive(Clone, Debug, PartialEq, Eq)]
pub struct Shape {
    pub width: usize,
    pub log_len: u32,
    pub rules: Vec<Rule>,
    /// periodic columns (small integers), cycle length = len
    pub periodic: Vec<Vec<u64>>,
    pub exemptions: usize,
    pub aux: Option<AuxShape>,
    pub assertions: Vec<AssertSpec>,
    /// application metadata carried in the TraceInfo (the sim AIR ignores it)
    pub meta: Vec<u8>,
}

impl Shape {
    pub fn len(&self) -> usize {
        1 << self.log_len
    }

    pub fn degrees(&self) -> Vec<TransitionConstraintDegree> {
        self.rules
            .iter()
            .map(|r| match r.degree() {
                (d, None) => TransitionConstraintDegree::new(d),
                (d, Some(pk)) => TransitionConstraintDegree::with_cycles(
                    d,
                    vec![self.periodic.get(pk).map(|c| c.len()).unwrap_or(2)],
                ),
            })
            .collect()
    }

    pub fn aux_degrees(&self) -> Vec<TransitionConstraintDegree> {
        match &self.aux {
            None => vec![],
            Some(a) => (0..a.plain_cols())
                .map(|j| TransitionConstraintDegree::new(if j == 0 { 2 } else { 1 }))
                .collect(),
        }
    }

    /// smallest blowup factor the declared degrees need
    pub fn min_blowup(&self) -> usize {
        self.degrees()
            .iter()
            .chain(self.aux_degrees().iter())
            .map(|d| d.min_blowup_factor())
            .max()
            .unwrap_or(2)
    }

    pub fn trace_info(&self) -> TraceInfo {
        match &self.aux {
            None => TraceInfo::new_multi_segment(self.width, 0, 0, self.len(), self.meta.clone()),
            Some(a) => TraceInfo::new_multi_segment(self.width, a.width, a.num_rands, self.len(), self.meta.clone()),
        }
    }

    pub fn describe(&self) -> String {
        format!(
            "{} cols x {} rows, {} rules (max degree {}), {} periodic cols {:?}, {} exemptions, aux {:?}, assertions {:?}",
            self.width,
            self.len(),
            self.rules.len(),
            self.rules.iter().map(|r| r.degree().0).max().unwrap_or(0),
            self.periodic.len(),
            self.periodic.iter().map(|p| p.len()).collect::<Vec<_>>(),
            self.exemptions,
            self.aux,
            self.assertions.iter().map(|a| format!("{:?}(c{} s{} +{} x{})", a.kind, a.col, a.first, a.stride, a.count)).collect::<Vec<_>>()
        )
    }
}

// PUBLIC INPUTS
// ================================================================================================

#[derive(Clone, Debug, PartialEq, Eq)]
pub struct SimInputs<B: StarkField> {
    pub shape: Shape,
    /// asserted values, one vector per main assertion
    pub values: Vec<Vec<B>>,
    /// one vector per auxiliary sequence assertion: the partial sums of its source main column
    /// before each asserted step
    pub aux_sums: Vec<Vec<B>>,
}

impl<B: StarkField> SimInputs<B> {
    /// the statement that `rows` satisfies for `shape`
    pub fn from_trace(shape: &Shape, rows: &[Vec<B>]) -> Self {
        SimInputs { shape: shape.clone(), values: read_assertion_values(shape, rows), aux_sums: read_aux_sums(shape, rows) }
    }
}

/// partial sums of the source main column of every auxiliary sequence assertion
pub fn read_aux_sums<B: StarkField>(shape: &Shape, rows: &[Vec<B>]) -> Vec<Vec<B>> {
    let n = shape.len();
    let w = shape.width;
    match &shape.aux {
        None => vec![],
        Some(aux) => aux
            .asserts
            .iter()
            .map(|a| {
                let mut prefix = Vec::with_capacity(n + 1);
                let mut acc = B::ZERO;
                for row in rows.iter().take(n) {
                    prefix.push(acc);
                    acc += row[a.col % w];
                }
                a.steps(n).iter().map(|s| prefix[*s]).collect()
            })
            .collect(),
    }
}

impl<B: StarkField> ToElements<B> for SimInputs<B> {
    fn to_elements(&self) -> Vec<B> {
        let mut out: Vec<B> = vec![];
        let mut num = |x: usize| out.push(felt::<B>(x as u64));
        let s = &self.shape;
        num(s.width);
        num(s.log_len as usize);
        num(s.exemptions);
        num(s.rules.len());
        for r in &s.rules {
            match r {
                Rule::Pow { col, a, d, k } => {
                    num(1);
                    num(*col);
                    num(*a);
                    num(*d);
                    num(*k as usize);
                },
                Rule::Prod { col, factors, c } => {
                    num(2);
                    num(*col);
                    num(factors.len());
                    for f in factors {
                        num(*f);
                    }
                    num(*c);
                },
                Rule::PowPeriodic { col, a, d, pk, b } => {
                    num(3);
                    num(*col);
                    num(*a);
                    num(*d);
                    num(*pk);
                    num(*b);
                },
                Rule::Const { col } => {
                    num(4);
                    num(*col);
                },
                Rule::Lin { col, a, k } => {
                    num(5);
                    num(*col);
                    num(*a);
                    num(*k as usize);
                },
            }
        }
        num(s.periodic.len());
        for p in &s.periodic {
            num(p.len());
            for v in p {
                num(*v as usize);
            }
        }
        match &s.aux {
            None => num(0),
            Some(a) => {
                num(1);
                num(a.width);
                num(a.num_rands);
                num(a.lagrange as usize + 2 * a.gkr_empty as usize);
                num(a.asserts.len());
                for x in &a.asserts {
                    num(x.col);
                    num(x.first);
                    num(x.stride);
                }
            },
        }
        num(s.assertions.len());
        for a in &s.assertions {
            num(match a.kind {
                AssertKind::Single => 1,
                AssertKind::Periodic => 2,
                AssertKind::Sequence => 3,
            });
            num(a.col);
            num(a.first);
            num(a.stride);
            num(a.count);
        }
        for v in self.values.iter().chain(self.aux_sums.iter()) {
            out.push(felt::<B>(v.len() as u64));
            out.extend_from_slice(v);
        }
        out
    }
}

// AIR
// ================================================================================================

/// Unlike the dummy verifier of winterfell's own Lagrange test, this one checks that the
/// "proof" (log2 of the trace length) is the expected one, as a real GKR verifier would.
#[derive(Debug, Clone, Default)]
pub struct SimGkrVerifier {
    pub expected_log_len: usize,
    pub expect_empty: bool,
}

/// The GKR "proof" of the sim AIR: log2 of the trace length, or nothing at all (zero bytes on the
/// wire: the proof then carries `Some(vec![])`, which must survive every transport as such).
#[derive(Debug, Clone, Copy, PartialEq, Eq)]
pub struct SimGkrProof(pub Option<usize>);

impl utils::Serializable for SimGkrProof {
    fn write_into<W: utils::ByteWriter>(&self, target: &mut W) {
        if let Some(v) = self.0 {
            target.write_usize(v);
        }
    }
}

impl utils::Deserializable for SimGkrProof {
    fn read_from<R: utils::ByteReader>(source: &mut R) -> Result<Self, utils::DeserializationError> {
        if source.has_more_bytes() {
            Ok(SimGkrProof(Some(source.read_usize()?)))
        } else {
            Ok(SimGkrProof(None))
        }
    }
}

#[derive(Debug)]
pub struct SimGkrError;
impl std::fmt::Display for SimGkrError {
    fn fmt(&self, f: &mut std::fmt::Formatter<'_>) -> std::fmt::Result {
        write!(f, "sim gkr error")
    }
}

impl GkrVerifier for SimGkrVerifier {
    // as in winterfell's own Lagrange test AIR: the "proof" is log2(trace length), or empty
    type GkrProof = SimGkrProof;
    type Error = SimGkrError;

    fn verify<E, Hasher>(
        &self,
        gkr_proof: SimGkrProof,
        public_coin: &mut impl RandomCoin<BaseField = E::BaseField, Hasher = Hasher>,
    ) -> Result<LagrangeKernelRandElements<E>, Self::Error>
    where
        E: FieldElement,
        Hasher: ElementHasher<BaseField = E::BaseField>,
    {
        let expected = if self.expect_empty { None } else { Some(self.expected_log_len) };
        if gkr_proof.0 != expected {
            return Err(SimGkrError);
        }
        let gkr_proof = self.expected_log_len;
        let mut rand_elements: Vec<E> = Vec::with_capacity(gkr_proof);
        for _ in 0..gkr_proof {
            rand_elements.push(public_coin.draw().map_err(|_| SimGkrError)?);
        }
        SEEN_BY_VERIFIER.with(|s| s.borrow_mut().lagrange = Some(rand_elements.iter().map(|e| ints_of(*e)).collect()));
        Ok(LagrangeKernelRandElements::new(rand_elements))
    }
}

/// What the party that ran last was handed as challenges for the auxiliary segment (base-field
/// coordinates as integers): the random elements the AIR receives with `get_aux_assertions`, and
/// the Lagrange-kernel elements its GKR verifier drew. Cleared by the harness before a party runs.
#[derive(Default, Clone, Debug)]
pub struct SeenChallenges {
    pub aux_rands: Option<Vec<Vec<u128>>>,
    pub lagrange: Option<Vec<Vec<u128>>>,
}

thread_local! {
    pub static SEEN_BY_VERIFIER: RefCell<SeenChallenges> = RefCell::new(SeenChallenges::default());
}

fn ints_of<E: FieldElement>(e: E) -> Vec<u128> {
    let bytes = utils::Serializable::to_bytes(&e);
    let w = bytes.len() / E::EXTENSION_DEGREE;
    bytes
        .chunks(w)
        .map(|c| {
            let mut buf = [0u8; 16];
            buf[..c.len()].copy_from_slice(c);
            u128::from_le_bytes(buf)
        })
        .collect()
}

pub struct SimAir<B: SimField> {
    context: AirContext<B>,
    inputs: SimInputs<B>,
}

impl<B: SimField> SimAir<B> {
    pub fn inputs(&self) -> &SimInputs<B> {
        &self.inputs
    }
}

impl<B: SimField> Air for SimAir<B> {
    type BaseField = B;
    type PublicInputs = SimInputs<B>;
    type GkrProof = SimGkrProof;
    type GkrVerifier = SimGkrVerifier;

    // Like the example AIRs, this hands the proof-supplied TraceInfo / ProofOptions to
    // AirContext as they are; it asserts nothing itself.
    fn new(trace_info: TraceInfo, pub_inputs: SimInputs<B>, options: ProofOptions) -> Self {
        let shape = &pub_inputs.shape;
        let multi = trace_info.is_multi_segment();
        let aux_degrees = if multi {
            let d = shape.aux_degrees();
            if d.is_empty() {
                vec![TransitionConstraintDegree::new(1)]
            } else {
                d
            }
        } else {
            vec![]
        };
        let num_aux_assertions = if multi { shape.aux.as_ref().map(|a| a.num_assertions()).unwrap_or(1).max(1) } else { 0 };
        let lagrange = if multi && shape.aux.as_ref().map(|a| a.lagrange).unwrap_or(false) {
            Some(trace_info.get_aux_segment_width().saturating_sub(1))
        } else {
            None
        };
        let mut context = AirContext::new_multi_segment(
            trace_info,
            shape.degrees(),
            aux_degrees,
            shape.assertions.len(),
            num_aux_assertions,
            lagrange,
            options,
        );
        if shape.exemptions != 1 {
            context = context.set_num_transition_exemptions(shape.exemptions);
        }
        SimAir { context, inputs: pub_inputs }
    }

    fn context(&self) -> &AirContext<B> {
        &self.context
    }

    fn evaluate_transition<E: FieldElement<BaseField = B>>(
        &self,
        frame: &EvaluationFrame<E>,
        periodic_values: &[E],
        result: &mut [E],
    ) {
        let cur = frame.current();
        let next = frame.next();
        for (r, rule) in result.iter_mut().zip(self.inputs.shape.rules.iter()) {
            let n = next.get(rule.col()).copied().unwrap_or(E::ZERO);
            *r = n - rule.apply(cur, periodic_values);
        }
    }

    fn get_assertions(&self) -> Vec<Assertion<B>> {
        self.inputs
            .shape
            .assertions
            .iter()
            .zip(self.inputs.values.iter())
            .map(|(a, v)| match a.kind {
                AssertKind::Single => Assertion::single(a.col, a.first, v[0]),
                AssertKind::Periodic => Assertion::periodic(a.col, a.first, a.stride, v[0]),
                AssertKind::Sequence => Assertion::sequence(a.col, a.first, a.stride, v.clone()),
            })
            .collect()
    }

    fn get_periodic_column_values(&self) -> Vec<Vec<B>> {
        self.inputs
            .shape
            .periodic
            .iter()
            .map(|c| c.iter().map(|v| felt::<B>(*v)).collect())
            .collect()
    }

    fn evaluate_aux_transition<F, E>(
        &self,
        main_frame: &EvaluationFrame<F>,
        aux_frame: &EvaluationFrame<E>,
        _periodic_values: &[F],
        aux_rand_elements: &[E],
        result: &mut [E],
    ) where
        F: FieldElement<BaseField = B>,
        E: FieldElement<BaseField = B> + ExtensionOf<F>,
    {
        let w = self.inputs.shape.width.max(1);
        let mc = main_frame.current();
        let ac = aux_frame.current();
        let an = aux_frame.next();
        let m = |i: usize| mc.get(i % w).copied().map(E::from).unwrap_or(E::ZERO);
        let r = |i: usize| {
            if aux_rand_elements.is_empty() {
                E::ONE
            } else {
                aux_rand_elements[i % aux_rand_elements.len()]
            }
        };
        for (j, res) in result.iter_mut().enumerate() {
            let c = ac.get(j).copied().unwrap_or(E::ZERO);
            let n = an.get(j).copied().unwrap_or(E::ZERO);
            *res = n - aux_step(j, c, m(j), r(j));
        }
    }

    fn get_aux_assertions<E: FieldElement<BaseField = B>>(&self, aux_rand_elements: &[E]) -> Vec<Assertion<E>> {
        SEEN_BY_VERIFIER.with(|s| s.borrow_mut().aux_rands = Some(aux_rand_elements.iter().map(|e| ints_of(*e)).collect()));
        let Some(aux) = self.inputs.shape.aux.as_ref() else {
            return vec![Assertion::single(0, 0, E::ONE)];
        };
        let plain = aux.plain_cols().max(1);
        let mut out: Vec<Assertion<E>> =
            (0..plain).filter(|j| aux.single_at_zero(*j)).map(|j| Assertion::single(j, 0, if j == 0 { E::ONE } else { E::ZERO })).collect();
        for (a, sums) in aux.asserts.iter().zip(self.inputs.aux_sums.iter()) {
            let r = if aux_rand_elements.is_empty() { E::ONE } else { aux_rand_elements[a.col % aux_rand_elements.len()] };
            out.push(Assertion::sequence(a.col, a.first, a.stride, sums.iter().map(|s| r * E::from(*s)).collect()));
        }
        out
    }

    fn get_auxiliary_proof_verifier<E: FieldElement<BaseField = B>>(&self) -> SimGkrVerifier {
        SimGkrVerifier {
            expected_log_len: self.context.trace_len().ilog2() as usize,
            expect_empty: self.inputs.shape.aux.as_ref().map(|a| a.gkr_empty).unwrap_or(false),
        }
    }
}

/// auxiliary rule: column 0 is a running product aux * (main + r) (degree 2); column j >= 1 is a
/// running sum aux + r * main (degree 1)
pub fn aux_step<E: FieldElement>(j: usize, aux_cur: E, main_cur: E, r: E) -> E {
    if j == 0 {
        aux_cur * (main_cur + r)
    } else {
        aux_cur + r * main_cur
    }
}

// TRACE
// ================================================================================================

#[derive(Clone, Debug)]
pub struct SimTrace<B: StarkField> {
    pub main: ColMatrix<B>,
    pub info: TraceInfo,
}

impl<B: StarkField> SimTrace<B> {
    pub fn from_rows(shape: &Shape, rows: &[Vec<B>]) -> Self {
        let cols: Vec<Vec<B>> = (0..shape.width).map(|c| rows.iter().map(|r| r[c]).collect()).collect();
        SimTrace { main: ColMatrix::new(cols), info: shape.trace_info() }
    }
}

impl<B: StarkField> Trace for SimTrace<B> {
    type BaseField = B;

    fn info(&self) -> &TraceInfo {
        &self.info
    }

    fn main_segment(&self) -> &ColMatrix<B> {
        &self.main
    }

    fn read_main_frame(&self, row_idx: usize, frame: &mut EvaluationFrame<B>) {
        let next_row_idx = (row_idx + 1) % self.main.num_rows();
        self.main.read_row_into(row_idx, frame.current_mut());
        self.main.read_row_into(next_row_idx, frame.next_mut());
    }
}

// PROVER NODE
// ================================================================================================

/// A fault injected into the prover's stored auxiliary trace before it is committed.
#[derive(Clone, Debug)]
pub struct AuxFault {
    pub col: usize,
    pub step: usize,
    pub delta: u64,
    /// subtract instead of add
    pub neg: bool,
}

/// Byzantine behaviour of the prover node's trace commitments: it ANNOUNCES (and absorbs into its
/// coin) another digest than the root of the tree it later opens queries against.
#[derive(Clone, Copy, Debug, PartialEq, Eq)]
pub enum Lie {
    MainCommitment,
    AuxCommitment,
}

thread_local! {
    /// (real main root, real aux root) of the last equivocating proof, as canonical bytes
    pub static REAL_ROOTS: RefCell<(Vec<u8>, Vec<u8>)> = const { RefCell::new((vec![], vec![])) };
}

/// `DefaultTraceLde` behind a wrapper that can lie about a commitment. Honest unless told so.
pub struct SimTraceLde<E: FieldElement, H: ElementHasher<BaseField = E::BaseField>> {
    inner: DefaultTraceLde<E, H>,
    lie: Option<Lie>,
}

fn another_digest<H: ElementHasher>(d: &H::Digest) -> H::Digest {
    H::merge(&[*d, *d])
}

impl<E: FieldElement, H: ElementHasher<BaseField = E::BaseField> + Sync> TraceLde<E> for SimTraceLde<E, H>
where
    E::BaseField: StarkField,
{
    type HashFn = H;

    fn get_main_trace_commitment(&self) -> H::Digest {
        let real = self.inner.get_main_trace_commitment();
        if self.lie == Some(Lie::MainCommitment) {
            REAL_ROOTS.with(|r| r.borrow_mut().0 = utils::Serializable::to_bytes(&real));
            another_digest::<H>(&real)
        } else {
            real
        }
    }

    fn set_aux_trace(&mut self, aux_trace: &ColMatrix<E>, domain: &StarkDomain<E::BaseField>) -> (ColMatrix<E>, H::Digest) {
        let (polys, real) = self.inner.set_aux_trace(aux_trace, domain);
        if self.lie == Some(Lie::AuxCommitment) {
            REAL_ROOTS.with(|r| r.borrow_mut().1 = utils::Serializable::to_bytes(&real));
            (polys, another_digest::<H>(&real))
        } else {
            (polys, real)
        }
    }

    fn read_main_trace_frame_into(&self, lde_step: usize, frame: &mut EvaluationFrame<E::BaseField>) {
        self.inner.read_main_trace_frame_into(lde_step, frame)
    }

    fn read_aux_trace_frame_into(&self, lde_step: usize, frame: &mut EvaluationFrame<E>) {
        self.inner.read_aux_trace_frame_into(lde_step, frame)
    }

    fn read_lagrange_kernel_frame_into(&self, lde_step: usize, col_idx: usize, frame: &mut air::LagrangeKernelEvaluationFrame<E>) {
        self.inner.read_lagrange_kernel_frame_into(lde_step, col_idx, frame)
    }

    fn query(&self, positions: &[usize]) -> Vec<air::proof::Queries> {
        self.inner.query(positions)
    }

    fn trace_len(&self) -> usize {
        self.inner.trace_len()
    }

    fn blowup(&self) -> usize {
        self.inner.blowup()
    }

    fn trace_info(&self) -> &TraceInfo {
        self.inner.trace_info()
    }
}

/// What the prover node did, for the harness to inspect afterwards.
#[derive(Default)]
pub struct ProverRecord {
    /// auxiliary trace as committed (columns of base-field coordinate vectors), and the random
    /// elements it was built from, both flattened to base field elements as u128 integers
    pub aux_cols: Vec<Vec<Vec<u128>>>,
    pub aux_rands: Vec<Vec<u128>>,
    pub lagrange_rands: Vec<Vec<u128>>,
}

pub struct SimProver<B: SimField, H: ElementHasher<BaseField = B>, R: RandomCoin<BaseField = B, Hasher = H>> {
    pub options: ProofOptions,
    pub inputs: SimInputs<B>,
    pub aux_fault: Option<AuxFault>,
    pub lie: Option<Lie>,
    pub record: RefCell<ProverRecord>,
    _p: PhantomData<(H, R)>,
}

impl<B: SimField, H: ElementHasher<BaseField = B>, R: RandomCoin<BaseField = B, Hasher = H>> SimProver<B, H, R> {
    pub fn new(options: ProofOptions, inputs: SimInputs<B>) -> Self {
        SimProver { options, inputs, aux_fault: None, lie: None, record: RefCell::new(ProverRecord::default()), _p: PhantomData }
    }
}

pub fn elem_to_ints<E: FieldElement>(e: E) -> Vec<u128>
where
    E::BaseField: StarkField,
{
    let b = E::slice_as_base_elements(std::slice::from_ref(&e));
    b.iter().map(|x| to_u128(*x)).collect()
}

pub fn to_u128<B: StarkField>(x: B) -> u128 {
    // PositiveInteger is u64 or u128; go through the canonical bytes
    let bytes = utils::Serializable::to_bytes(&x);
    let mut buf = [0u8; 16];
    buf[..bytes.len()].copy_from_slice(&bytes);
    u128::from_le_bytes(buf)
}

impl<B, H, R> Prover for SimProver<B, H, R>
where
    B: SimField,
    H: ElementHasher<BaseField = B> + Sync + Send,
    R: RandomCoin<BaseField = B, Hasher = H> + Send + Sync,
{
    type BaseField = B;
    type Air = SimAir<B>;
    type Trace = SimTrace<B>;
    type HashFn = H;
    type RandomCoin = R;
    type TraceLde<E: FieldElement<BaseField = B>> = SimTraceLde<E, H>;
    type ConstraintEvaluator<'a, E: FieldElement<BaseField = B>> = DefaultConstraintEvaluator<'a, SimAir<B>, E>;

    fn get_pub_inputs(&self, _trace: &SimTrace<B>) -> SimInputs<B> {
        self.inputs.clone()
    }

    fn options(&self) -> &ProofOptions {
        &self.options
    }

    fn new_trace_lde<E: FieldElement<BaseField = B>>(
        &self,
        trace_info: &TraceInfo,
        main_trace: &ColMatrix<B>,
        domain: &StarkDomain<B>,
    ) -> (Self::TraceLde<E>, TracePolyTable<E>) {
        let (inner, polys) = DefaultTraceLde::new(trace_info, main_trace, domain);
        (SimTraceLde { inner, lie: self.lie }, polys)
    }

    fn new_evaluator<'a, E: FieldElement<BaseField = B>>(
        &self,
        air: &'a SimAir<B>,
        aux_rand_elements: Option<AuxRandElements<E>>,
        composition_coefficients: ConstraintCompositionCoefficients<E>,
    ) -> Self::ConstraintEvaluator<'a, E> {
        DefaultConstraintEvaluator::new(air, aux_rand_elements, composition_coefficients)
    }

    fn generate_gkr_proof<E: FieldElement<BaseField = B>>(
        &self,
        main_trace: &SimTrace<B>,
        public_coin: &mut R,
    ) -> (SimGkrProof, LagrangeKernelRandElements<E>) {
        let log_trace_len = main_trace.main.num_rows().ilog2() as usize;
        let mut rand_elements: Vec<E> = Vec::with_capacity(log_trace_len);
        for _ in 0..log_trace_len {
            rand_elements.push(public_coin.draw().expect("SUT: coin draw failed"));
        }
        let empty = self.inputs.shape.aux.as_ref().map(|a| a.gkr_empty).unwrap_or(false);
        (SimGkrProof(if empty { None } else { Some(log_trace_len) }), LagrangeKernelRandElements::new(rand_elements))
    }

    fn build_aux_trace<E: FieldElement<BaseField = B>>(
        &self,
        main_trace: &SimTrace<B>,
        aux_rand_elements: &AuxRandElements<E>,
    ) -> ColMatrix<E> {
        let shape = &self.inputs.shape;
        let aux = shape.aux.as_ref().expect("harness: aux trace requested for a single-segment shape");
        let main = &main_trace.main;
        let n = main.num_rows();
        let rands = aux_rand_elements.rand_elements();
        let mut cols =
            build_aux_columns::<B, E>(shape, aux, &|c, i| main.get(c, i), n, rands, aux_rand_elements.lagrange());
        // F2: a cell of the stored auxiliary trace is corrupted before it is committed
        if let Some(f) = &self.aux_fault {
            if f.col < cols.len() && f.step < n {
                if f.neg {
                    cols[f.col][f.step] -= felt::<E>(f.delta.max(1));
                } else {
                    cols[f.col][f.step] += felt::<E>(f.delta.max(1));
                }
            }
        }
        let mut rec = self.record.borrow_mut();
        rec.aux_cols = cols.iter().map(|c| c.iter().map(|e| elem_to_ints(*e)).collect()).collect();
        rec.aux_rands = rands.iter().map(|e| elem_to_ints(*e)).collect();
        rec.lagrange_rands = aux_rand_elements
            .lagrange()
            .map(|l| l.iter().map(|e| elem_to_ints(*e)).collect())
            .unwrap_or_default();
        ColMatrix::new(cols)
    }
}

pub fn build_aux_columns<B: StarkField, E: FieldElement<BaseField = B>>(
    shape: &Shape,
    aux: &AuxShape,
    main: &dyn Fn(usize, usize) -> B,
    n: usize,
    rands: &[E],
    lagrange: Option<&LagrangeKernelRandElements<E>>,
) -> Vec<Vec<E>> {
    let w = shape.width;
    let r = |j: usize| if rands.is_empty() { E::ONE } else { rands[j % rands.len()] };
    let mut cols: Vec<Vec<E>> = vec![];
    for j in 0..aux.plain_cols() {
        let mut col = Vec::with_capacity(n);
        let mut v = if j == 0 { E::ONE } else { E::ZERO };
        for i in 0..n {
            col.push(v);
            v = aux_step(j, v, E::from(main(j % w, i)), r(j));
        }
        cols.push(col);
    }
    if aux.lagrange {
        let lr = lagrange.expect("harness: Lagrange random elements missing");
        let mut col = Vec::with_capacity(n);
        for row_idx in 0..n {
            let mut row_value = E::ONE;
            for (bit_idx, &r_i) in lr.iter().enumerate() {
                if row_idx & (1 << bit_idx) == 0 {
                    row_value *= E::ONE - r_i;
                } else {
                    row_value *= r_i;
                }
            }
            col.push(row_value);
        }
        cols.push(col);
    }
    cols
}

// WORKLOAD GENERATION
// ================================================================================================

#[derive(Clone, Copy, Debug, PartialEq, Eq)]
pub struct GenLimits {
    pub max_log_len: u32,
    pub max_width: usize,
    pub max_grinding: u32,
    pub allow_aux: bool,
}

impl GenLimits {
    pub fn small() -> Self {
        GenLimits { max_log_len: 6, max_width: 6, max_grinding: 4, allow_aux: true }
    }
    pub fn quick() -> Self {
        GenLimits { max_log_len: 8, max_width: 255, max_grinding: 8, allow_aux: true }
    }
    pub fn thorough() -> Self {
        GenLimits { max_log_len: 11, max_width: 255, max_grinding: 14, allow_aux: true }
    }
}

pub fn gen_shape(ch: &mut Chooser, lim: &GenLimits, max_blowup: usize) -> Shape {
    let log_len = 3 + ch.weighted(
        "shape.loglen",
        &[10, 8, 6, 4, 3, 2, 1, 1, 1][..(lim.max_log_len as usize - 2).min(9)],
    ) as u32;
    let n = 1usize << log_len;
    let aux = if lim.allow_aux && ch.chance("shape.aux?", 1, 4) {
        let lagrange = ch.chance("shape.lagrange?", 1, 3);
        let plain = 1 + ch.index("shape.auxcols", 3);
        Some(AuxShape {
            width: plain + lagrange as usize,
            num_rands: if lagrange && ch.chance("shape.norands?", 1, 3) { 0 } else { 1 + ch.index("shape.auxrands", 4) },
            lagrange,
            gkr_empty: lagrange && ch.chance("shape.gkrempty?", 1, 3),
            asserts: if plain >= 2 && ch.chance("shape.auxassert?", 1, 2) {
                // a sequence assertion on a running-sum column: n / stride values (both sides of
                // the prover's 63-value switch when the trace is long enough), first step 0 (then
                // it replaces the column's single assertion) or not
                let col = 1 + ch.index("shape.auxassert.col", plain - 1);
                let ls = 1 + ch.weighted("shape.auxassert.stridelog", &[3, 2, 2, 1, 1, 1, 1, 1, 1, 1][..(log_len as usize - 1).min(10)]);
                let stride = 1usize << ls;
                let first = if ch.chance("shape.auxassert.first0?", 1, 2) { 0 } else { 1 + ch.index("shape.auxassert.first", stride - 1) };
                vec![AuxAssert { col, first, stride }]
            } else {
                vec![]
            },
        })
    } else {
        None
    };
    let aux_w = aux.as_ref().map(|a| a.width).unwrap_or(0);
    let max_w = lim.max_width.min(255 - aux_w).max(1);
    let width = ch.biased("shape.width", 1, max_w as u64, &[1, 2, 3, 7, 8, 9, 16, 17, 64, 254, 255]) as usize;
    // keep wide traces short so that a run stays cheap
    let (log_len, n) = if width > 32 && log_len > 6 { (6, 64) } else { (log_len, n) };
    // (an auxiliary sequence assertion drawn for the longer trace keeps at least two values)
    let mut aux = aux;
    if let Some(a) = aux.as_mut() {
        for x in a.asserts.iter_mut() {
            x.stride = x.stride.min(n / 2);
            x.first %= x.stride;
        }
    }

    // periodic columns
    let np = ch.weighted("shape.nperiodic", &[5, 3, 2]);
    let mut periodic = vec![];
    for _ in 0..np {
        let lc = 1 + ch.index("shape.cyclelog", log_len as usize);
        let c = 1usize << lc;
        periodic.push((0..c).map(|_| 1 + ch.pick("shape.pval", 1 << 20)).collect::<Vec<u64>>());
    }

    // the degree budget: declared degree d needs blowup >= next_pow2(d + cycles - 1)
    let max_deg_plain = max_blowup + 1;
    let style = ch.weighted("shape.style", &[10, 2, 2, 2]); // 0 general, 1 all-constant, 2 all-zero, 3 linear only
    let ncons = 1 + ch.index("shape.nrules", width.min(6));
    let mut cols: Vec<usize> = ch.permutation("shape.rulecols", width.min(24));
    cols.truncate(ncons);
    if style != 0 || width > 24 {
        cols.sort_unstable();
    }
    let mut rules = vec![];
    for &col in &cols {
        let a = ch.index("rule.a", width);
        let kind = if style == 1 {
            3
        } else if style == 3 {
            4
        } else {
            ch.weighted("rule.kind", &[4, 3, if periodic.is_empty() { 0 } else { 3 }, 1, 2])
        };
        let rule = match kind {
            0 => {
                let d = ch.biased("rule.d", 1, max_deg_plain as u64, &[1, 2, 3, max_deg_plain as u64, (max_deg_plain - 1) as u64]) as usize;
                Rule::Pow { col, a, d, k: if style == 2 { 0 } else { ch.pick("rule.k", 1 << 16) } }
            },
            1 => {
                let d = ch.biased("rule.d", 1, max_deg_plain.min(8) as u64, &[2, 3]) as usize;
                let factors = (0..d).map(|_| ch.index("rule.f", width)).collect();
                Rule::Prod { col, factors, c: ch.index("rule.c", width) }
            },
            2 => {
                // base degree d plus one cycle: needs blowup >= next_pow2(d)
                let dmax = max_blowup.max(1);
                let d = ch.biased("rule.d", 1, dmax as u64, &[1, 2, dmax as u64]) as usize;
                Rule::PowPeriodic { col, a, d, pk: ch.index("rule.pk", periodic.len()), b: ch.index("rule.b", width) }
            },
            3 => Rule::Const { col },
            _ => Rule::Lin { col, a, k: if style == 2 { 0 } else { 1 + ch.pick("rule.k", 1 << 16) } },
        };
        rules.push(rule);
    }

    let mut shape = Shape { width, log_len, rules, periodic, exemptions: 1, aux, assertions: vec![], meta: vec![] };

    // exemptions: 1..=n/2+1, also bounded by the composition-degree rule of AirContext
    let blow = shape.min_blowup();
    let ce_size = n * blow;
    let mut max_ex = n / 2 + 1;
    for d in shape.degrees().iter().chain(shape.aux_degrees().iter()) {
        let eval = d.get_evaluation_degree(n);
        max_ex = max_ex.min((ce_size - 1 + n).saturating_sub(eval));
    }
    let max_ex = max_ex.max(1);
    shape.exemptions = ch.biased("shape.exempt", 1, max_ex as u64, &[1, 2, 3, (n / 2) as u64, (n / 2 + 1) as u64]) as usize;

    // assertions (non-overlapping); at least one
    let na = 1 + ch.index("shape.nassert", 5);
    let mut taken: Vec<(usize, usize)> = vec![];
    for _ in 0..na {
        let kind = ch.weighted("assert.kind", &[5, 2, 3]);
        let spec = match kind {
            0 => {
                let col = ch.index("assert.col", width.min(32));
                let e = shape.exemptions;
                let first = *ch.choose("assert.step", &[0, n - 1, n / 2, 1, n - e - 1, n - e, (n - e + 1).min(n - 1), 3, 5]);
                AssertSpec { kind: AssertKind::Single, col, first, stride: 0, count: 1 }
            },
            1 => {
                // only meaningful on a column that is constant over the whole trace
                let consts: Vec<usize> =
                    shape.rules.iter().filter_map(|r| if let Rule::Const { col } = r { Some(*col) } else { None }).collect();
                if consts.is_empty() {
                    continue;
                }
                let col = consts[ch.index("assert.pcol", consts.len())];
                let ls = 1 + ch.index("assert.stridelog", log_len as usize);
                let stride = 1usize << ls;
                let first = if ch.chance("assert.first0?", 1, 2) { ch.index("assert.first", stride) } else { 0 };
                AssertSpec { kind: AssertKind::Periodic, col, first, stride, count: n / stride }
            },
            _ => {
                let col = ch.index("assert.col", width.min(32));
                // count * stride = n, count a power of two >= 2; both sides of the prover's
                // small/large polynomial switch (63)
                let lc = 1 + ch.index("assert.countlog", (log_len as usize - 1).max(1));
                let count = 1usize << lc;
                let stride = n / count;
                if stride < 2 {
                    continue;
                }
                let first = if ch.chance("assert.first0?", 1, 2) { ch.index("assert.first", stride) } else { 0 };
                AssertSpec { kind: AssertKind::Sequence, col, first, stride, count }
            },
        };
        let steps = spec.steps(n);
        if steps.iter().any(|s| taken.contains(&(spec.col, *s))) {
            continue;
        }
        for s in steps {
            taken.push((spec.col, s));
        }
        shape.assertions.push(spec);
    }
    if shape.assertions.is_empty() {
        shape.assertions.push(AssertSpec { kind: AssertKind::Single, col: 0, first: 0, stride: 0, count: 1 });
        taken.push((0, 0));
    }
    // one shape in 25 (where the trace has the room) pins 256..320 cells by single assertions:
    // more assertions than a one-byte counter holds, spread over every step (round 10)
    let cols = width.min(32);
    if cols * n >= 400 && ch.chance("shape.manyassert?", 1, 25) {
        let target = 256 + ch.index("shape.manyassert.n", 65);
        let mut r = simcore::rng::Xoshiro::from_u64(ch.u64("shape.manyassert.salt"));
        let mut guard = 0;
        while shape.assertions.len() < target && guard < 100_000 {
            guard += 1;
            let cell = (r.below(cols as u64) as usize, r.below(n as u64) as usize);
            if taken.contains(&cell) {
                continue;
            }
            taken.push(cell);
            shape.assertions.push(AssertSpec { kind: AssertKind::Single, col: cell.0, first: cell.1, stride: 0, count: 1 });
        }
    }
    // trace metadata: mostly none; a few bytes; a chunk boundary of to_elements (7 / 8 / 15 / 16)
    let ml = match ch.weighted("shape.meta", &[6, 2, 1, 1]) {
        0 => 0,
        1 => 1 + ch.index("shape.metalen", 6),
        2 => *ch.choose("shape.metalen", &[7usize, 8, 14, 15, 16]),
        _ => 17 + ch.index("shape.metalen", 30),
    };
    if ml > 0 {
        let mut r = simcore::rng::Xoshiro::from_u64(ch.u64("shape.metasalt"));
        shape.meta = (0..ml).map(|_| 1 + (r.next() % 255) as u8).collect();
    }
    shape
}

/// A trace produced by forward execution of the rules: valid by construction.
pub fn gen_rows<B: StarkField>(ch: &mut Chooser, shape: &Shape) -> Vec<Vec<B>> {
    let n = shape.len();
    let w = shape.width;
    let e = shape.exemptions;
    let salt = ch.u64("trace.salt");
    let mut rng = simcore::rng::Xoshiro::from_u64(salt);
    let init_style = ch.weighted("trace.init", &[8, 1, 1, 2]); // random / zeros / small / special members of the field
    let free_style = ch.weighted("trace.free", &[6, 2, 2]); // unconstrained columns: random / constant / linear in step
    let periodic_assert_cols: Vec<usize> =
        shape.assertions.iter().filter(|a| a.kind == AssertKind::Periodic).map(|a| a.col).collect();
    let ruled: Vec<Option<&Rule>> = (0..w).map(|c| shape.rules.iter().find(|r| r.col() == c)).collect();
    let mut rnd = |rng: &mut simcore::rng::Xoshiro| -> B { felt::<B>(rng.next() >> 2) };
    // members of the field next to its ends and next to the powers of two at which the
    // representations of the three fields change (2^31, 2^32, 2^61..2^64, (p-1)/2, -2^32)
    let special = |rng: &mut simcore::rng::Xoshiro| -> B {
        let two = B::ONE + B::ONE;
        let p2 = |k: u32| two.exp(k.into());
        match rng.below(16) {
            0 => B::ZERO,
            1 => B::ONE,
            2 => -B::ONE,
            3 => -two,
            4 => two,
            5 => p2(31),
            6 => p2(32) - B::ONE,
            7 => p2(32),
            8 => -p2(32),
            9 => -(p2(32) - B::ONE),
            10 => (-B::ONE) / two,
            11 => (-B::ONE) / two + B::ONE,
            12 => p2(61),
            13 => p2(63) - B::ONE,
            14 => -p2(31),
            _ => p2(B::MODULUS_BITS - 1) - B::ONE,
        }
    };
    let row0: Vec<B> = (0..w)
        .map(|_| match init_style {
            0 => rnd(&mut rng),
            1 => B::ZERO,
            2 => felt::<B>(rng.below(4)),
            _ => special(&mut rng),
        })
        .collect();
    let free_c: Vec<B> = (0..w).map(|_| rnd(&mut rng)).collect();
    let mut rows = vec![row0];
    for i in 0..n - 1 {
        let periodic: Vec<B> = shape.periodic.iter().map(|p| felt::<B>(p[i % p.len()])).collect();
        let cur = rows[i].clone();
        let exempt_zone = i >= n - e; // transition i -> i+1 is not enforced
        let mut next = vec![B::ZERO; w];
        for c in 0..w {
            next[c] = match ruled[c] {
                Some(rule) if !exempt_zone || periodic_assert_cols.contains(&c) || free_style == 1 => rule.apply(&cur, &periodic),
                Some(_) => rnd(&mut rng),
                None => match free_style {
                    0 => rnd(&mut rng),
                    1 => cur[c],
                    _ => cur[c] + free_c[c],
                },
            };
        }
        rows.push(next);
    }
    rows
}

pub fn read_assertion_values<B: StarkField>(shape: &Shape, rows: &[Vec<B>]) -> Vec<Vec<B>> {
    let n = shape.len();
    shape
        .assertions
        .iter()
        .map(|a| match a.kind {
            AssertKind::Single | AssertKind::Periodic => vec![rows[a.first][a.col]],
            AssertKind::Sequence => a.steps(n).iter().map(|s| rows[*s][a.col]).collect(),
        })
        .collect()
}

// REFERENCE VALIDITY PREDICATE
// ================================================================================================

/// Direct, independent statement of validity of the main segment: every rule holds between rows
/// i and i+1 for every non-exempt step, and every asserted cell holds.
/// Returns the list of violated (what, step) pairs (empty = valid).
pub fn main_violations<B: StarkField>(inputs: &SimInputs<B>, rows: &[Vec<B>]) -> Vec<(String, usize)> {
    let shape = &inputs.shape;
    let n = shape.len();
    let mut bad = vec![];
    for i in 0..n - shape.exemptions {
        let periodic: Vec<B> = shape.periodic.iter().map(|p| felt::<B>(p[i % p.len()])).collect();
        for (k, rule) in shape.rules.iter().enumerate() {
            if rows[i + 1][rule.col()] != rule.apply(&rows[i], &periodic) {
                bad.push((format!("rule{k}"), i));
            }
        }
    }
    for (k, (a, vals)) in shape.assertions.iter().zip(inputs.values.iter()).enumerate() {
        for (j, s) in a.steps(n).iter().enumerate() {
            let v = if a.kind == AssertKind::Sequence { vals[j] } else { vals[0] };
            if rows[*s][a.col] != v {
                bad.push((format!("assertion{k}"), *s));
            }
        }
    }
    // an auxiliary sequence assertion states partial sums of a main column: a main trace with
    // other partial sums cannot be extended to a valid auxiliary segment
    for (k, (sums, want)) in read_aux_sums(shape, rows).iter().zip(inputs.aux_sums.iter()).enumerate() {
        let steps = shape.aux.as_ref().map(|a| a.asserts[k].steps(n)).unwrap_or_default();
        for (j, (a, b)) in sums.iter().zip(want.iter()).enumerate() {
            if a != b {
                bad.push((format!("aux-assertion{k}"), steps[j]));
            }
        }
    }
    bad
}

// OPTIONS
// ================================================================================================

pub fn fri_well_formed(n: usize, blowup: usize, folding: usize, rmax: usize) -> bool {
    let mut d = n * blowup;
    let mut layers = 0u32;
    while d > (rmax + 1) * blowup {
        d /= folding;
        layers += 1;
    }
    (folding as u128).pow(layers) <= n as u128
}

pub fn ext_supported<B: SimField>(ext: FieldExtension) -> bool {
    match ext {
        FieldExtension::None => true,
        FieldExtension::Quadratic => <math::fields::QuadExtension<B>>::is_supported(),
        FieldExtension::Cubic => <CubeExtension<B>>::is_supported(),
    }
}

pub fn gen_options<B: SimField>(ch: &mut Chooser, shape: &Shape, lim: &GenLimits, blowup: usize) -> ProofOptions {
    let n = shape.len();
    let lde = n * blowup;
    let folding = [2usize, 4, 8, 16][ch.weighted("opt.folding", &[3, 3, 2, 2])];
    let rmaxs = [0usize, 1, 3, 7, 15, 31, 63, 127, 255];
    let mut rmax = rmaxs[ch.weighted("opt.rmax", &[3, 2, 2, 3, 2, 2, 1, 1, 1])];
    let mut folding = folding;
    if !fri_well_formed(n, blowup, folding, rmax) {
        // largest remainder that still keeps the schedule well formed, else fold by two
        if let Some(r) = rmaxs.iter().rev().find(|r| fri_well_formed(n, blowup, folding, **r)) {
            rmax = *r;
        }
        if !fri_well_formed(n, blowup, folding, rmax) {
            folding = 2;
        }
    }
    let maxq = (lde - 1).min(255) as u64;
    let queries = ch.biased("opt.queries", 1, maxq, &[1, 2, 3, 7, 8, 16, 32, 254, 255, maxq]) as usize;
    let grinding = ch.weighted(
        "opt.grinding",
        &[8, 2, 2, 1, 1, 1, 1, 1, 1, 1, 1, 1, 1, 1, 1][..(lim.max_grinding as usize + 1).min(15)],
    ) as u32;
    let exts = [FieldExtension::None, FieldExtension::Quadratic, FieldExtension::Cubic];
    let mut ext = exts[ch.weighted("opt.ext", &[3, 2, 2])];
    if !ext_supported::<B>(ext) {
        ext = FieldExtension::Quadratic;
        if !ext_supported::<B>(ext) {
            ext = FieldExtension::None;
        }
    }
    ProofOptions::new(queries, blowup, grinding, ext, folding, rmax)
}

pub fn gen_blowup(ch: &mut Chooser) -> usize {
    [2usize, 4, 8, 16, 32, 64, 128][ch.weighted("opt.blowup", &[6, 6, 4, 2, 1, 1, 1])]
}
