//! FRI sim: a recording / fault-injecting prover channel for the real FriProver, a harness-side
//! (possibly Byzantine) FRI prover built from public pieces, the reference fold in the
//! coefficient domain, and a spec-level reference FRI verifier over full layer data.

use crypto::{DefaultRandomCoin, ElementHasher, MerkleTree, RandomCoin};
use fri::{FriOptions, FriProof};
use math::{fft, FieldElement, StarkField};
use utils::{Deserializable, Serializable};

// RECORDING PROVER CHANNEL (seam of the real FriProver)
// ------------------------------------------------------------------------------------------------

pub struct SimProverChannel<E: FieldElement, H: ElementHasher<BaseField = E::BaseField>> {
    pub coin: DefaultRandomCoin<H>,
    pub commitments: Vec<H::Digest>,
    pub alphas: Vec<E>,
    /// answer draw_fri_alpha number `k` with alpha + 1 (a wrong challenge)
    pub wrong_alpha_at: Option<usize>,
}

impl<E: FieldElement, H: ElementHasher<BaseField = E::BaseField>> SimProverChannel<E, H> {
    pub fn new() -> Self {
        SimProverChannel { coin: DefaultRandomCoin::new(&[]), commitments: vec![], alphas: vec![], wrong_alpha_at: None }
    }
    pub fn draw_positions(&mut self, num_queries: usize, domain_size: usize, nonce: u64) -> Vec<usize> {
        self.coin.draw_integers(num_queries, domain_size, nonce).expect("harness: draw_integers")
    }
}

impl<E: FieldElement, H: ElementHasher<BaseField = E::BaseField>> fri::ProverChannel<E> for SimProverChannel<E, H> {
    type Hasher = H;
    fn commit_fri_layer(&mut self, layer_root: H::Digest) {
        self.commitments.push(layer_root);
        self.coin.reseed(layer_root);
    }
    fn draw_fri_alpha(&mut self) -> E {
        let a: E = self.coin.draw().expect("harness: draw alpha");
        let k = self.alphas.len();
        self.alphas.push(a);
        if self.wrong_alpha_at == Some(k) {
            a + E::ONE
        } else {
            a
        }
    }
}

// CONFIGURATION
// ------------------------------------------------------------------------------------------------

#[derive(Clone, Debug)]
pub struct FriCfg {
    pub log_domain: u32,
    pub blowup: usize,
    pub folding: usize,
    pub rmax: usize,
    pub num_queries: usize,
}

impl FriCfg {
    pub fn domain(&self) -> usize {
        1 << self.log_domain
    }
    /// size of the polynomial (claimed degree bound + 1)
    pub fn n(&self) -> usize {
        self.domain() / self.blowup
    }
    pub fn options(&self) -> FriOptions {
        FriOptions::new(self.blowup, self.folding, self.rmax)
    }
    pub fn layers(&self) -> usize {
        let mut d = self.domain();
        let mut l = 0;
        while d > (self.rmax + 1) * self.blowup {
            d /= self.folding;
            l += 1;
        }
        l
    }
    pub fn well_formed(&self) -> bool {
        (self.folding as u128).pow(self.layers() as u32) <= self.n() as u128
    }
    pub fn remainder_size(&self) -> usize {
        self.n() / self.folding.pow(self.layers() as u32)
    }
}

// REFERENCE FOLD (coefficient domain)
// ------------------------------------------------------------------------------------------------

/// evaluations over offset * <w_D>  ->  coefficients
pub fn coset_interpolate<B: StarkField, E: FieldElement<BaseField = B>>(evals: &[E]) -> Vec<E> {
    let mut c = evals.to_vec();
    let itw = fft::get_inv_twiddles::<B>(c.len());
    fft::interpolate_poly_with_offset(&mut c, &itw, B::GENERATOR);
    c
}

/// The folding identity, stated in the coefficient domain: interpret the layer as evaluations of
/// f over offset*<w>, split f(x) = sum_j x^j f_j(x^N), return the evaluations of
/// g = sum_j alpha^j f_j over the folded coset {x^N}.
pub fn ref_fold<B: StarkField, E: FieldElement<BaseField = B>>(evals: &[E], n_fold: usize, alpha: E) -> Vec<E> {
    let d = evals.len();
    let m = d / n_fold;
    let c = coset_interpolate::<B, E>(evals);
    let mut g = vec![E::ZERO; m];
    for k in 0..m {
        let mut ap = E::ONE;
        for j in 0..n_fold {
            g[k] += ap * c[k * n_fold + j];
            ap *= alpha;
        }
    }
    // evaluate g over offset^N * <w_m>: scale coefficient k by offset^(N k), then plain FFT
    let off_n = B::GENERATOR.exp((n_fold as u64).into());
    let mut s = B::ONE;
    for coef in g.iter_mut() {
        *coef = coef.mul_base(s);
        s *= off_n;
    }
    if m == 1 {
        return g;
    }
    let tw = fft::get_twiddles::<B>(m);
    fft::evaluate_poly(&mut g, &tw);
    g
}

// HARNESS-SIDE PROVER (honest or Byzantine)
// ------------------------------------------------------------------------------------------------

#[derive(Clone, Debug, PartialEq, Eq)]
pub enum Strategy {
    /// everything by the book
    Honest,
    /// remainder replaced, after the positions are known, by the interpolant through the folded
    /// evaluations at the queried points; its commitment stays the one made earlier
    S1AdaptiveRemainder,
    /// one value of layer `layer` changed before that layer is committed
    S2TamperValue { layer: usize, index: usize },
    /// layer `layer` folded with alpha + 1
    S3WrongAlpha { layer: usize },
    /// commitments of layers `a` and `a+1` swapped in the list handed to the verifier
    S4SwapCommitments { a: usize },
    /// remainder not truncated to the allowed size (full interpolant, padded to a power of two)
    S5LongRemainder,
    /// remainder commitment replaced by a digest of something else
    S6WrongRemainderCommitment,
    /// one commitment MORE than the schedule has: the remainder commitment made before the
    /// positions were drawn is the honest one, and a further commitment - to a remainder
    /// interpolated through the queried points after the positions are known - is appended last
    S8ExtraCommitment,
    /// the remainder that is committed (before the positions are drawn) and sent has FEWER
    /// coefficients than the schedule allows: the first `len` coefficients of the last fold's
    /// interpolant (`pick` selects len among 1, half the size, any smaller power of two). A
    /// legitimate, stronger claim when the dropped coefficients are zero; otherwise it disagrees
    /// with the last fold and must be refused wherever the queries fall
    S9ShortRemainder { pick: usize },
}

pub struct Built<E: FieldElement, H: ElementHasher<BaseField = E::BaseField>> {
    /// committed layer data (natural order), layer 0 = the function itself
    pub layers: Vec<Vec<E>>,
    pub roots: Vec<H::Digest>,
    /// commitments in the order given to the verifier (layers, then remainder)
    pub commitments: Vec<H::Digest>,
    /// alphas the prover folded with
    pub alphas_used: Vec<E>,
    pub last_evals: Vec<E>,
    pub remainder: Vec<E>,
    pub positions: Vec<usize>,
    /// the proof-of-work nonce the positions were drawn with
    pub nonce: u64,
    pub proof: FriProof,
}

fn hash_rows<E: FieldElement, H: ElementHasher<BaseField = E::BaseField>, const N: usize>(evals: &[E]) -> (Vec<[E; N]>, MerkleTree<H>) {
    let t: Vec<[E; N]> = utils::transpose_slice(evals);
    let hashes = fri::utils::hash_values::<H, E, N>(&t);
    let tree = MerkleTree::<H>::new(hashes).expect("harness: layer tree");
    (t, tree)
}

pub fn build<B, E, H>(cfg: &FriCfg, f0: Vec<E>, strategy: &Strategy, nonce: u64) -> Built<E, H>
where
    B: StarkField,
    E: FieldElement<BaseField = B>,
    H: ElementHasher<BaseField = B>,
{
    match cfg.folding {
        2 => build_n::<B, E, H, 2>(cfg, f0, strategy, nonce),
        4 => build_n::<B, E, H, 4>(cfg, f0, strategy, nonce),
        8 => build_n::<B, E, H, 8>(cfg, f0, strategy, nonce),
        _ => build_n::<B, E, H, 16>(cfg, f0, strategy, nonce),
    }
}

fn build_n<B, E, H, const N: usize>(cfg: &FriCfg, f0: Vec<E>, strategy: &Strategy, nonce: u64) -> Built<E, H>
where
    B: StarkField,
    E: FieldElement<BaseField = B>,
    H: ElementHasher<BaseField = B>,
{
    let mut coin = DefaultRandomCoin::<H>::new(&[]);
    let layers_n = cfg.layers();
    let mut evals = f0;
    let mut layers = vec![];
    let mut trees: Vec<(Vec<[E; N]>, MerkleTree<H>)> = vec![];
    let mut roots = vec![];
    let mut alphas_used = vec![];
    for i in 0..layers_n {
        if let Strategy::S2TamperValue { layer, index } = strategy {
            if *layer == i {
                let k = index % evals.len();
                evals[k] += E::ONE;
            }
        }
        let (t, tree) = hash_rows::<E, H, N>(&evals);
        let root = *tree.root();
        coin.reseed(root);
        let alpha: E = coin.draw().expect("harness: alpha");
        let used = if matches!(strategy, Strategy::S3WrongAlpha { layer } if *layer == i) { alpha + E::ONE } else { alpha };
        let next = fri::folding::apply_drp(&t, B::GENERATOR, used);
        layers.push(evals);
        trees.push((t, tree));
        roots.push(root);
        alphas_used.push(used);
        evals = next;
    }
    // remainder
    let last_evals = evals.clone();
    let coeffs = if evals.len() == 1 { evals.clone() } else { coset_interpolate::<B, E>(&evals) };
    let honest_size = (evals.len() / cfg.blowup).max(1);
    let mut remainder: Vec<E> = match strategy {
        Strategy::S5LongRemainder => {
            let deg = coeffs.iter().rposition(|c| *c != E::ZERO).unwrap_or(0);
            let size = (deg + 1).next_power_of_two().max(honest_size);
            coeffs[..size.min(coeffs.len())].to_vec()
        },
        Strategy::S9ShortRemainder { pick } => {
            let size = honest_size.min(coeffs.len());
            // (the wire format only carries remainders whose length is a power of two)
            let logs = size.ilog2().max(1) as usize;
            let len = match pick % 3 {
                0 => 1,
                1 => (size / 2).max(1),
                _ => 1usize << ((pick / 3) % logs),
            };
            coeffs[..len.min(size)].to_vec()
        },
        _ => coeffs[..honest_size.min(coeffs.len())].to_vec(),
    };
    let mut rem_commitment = H::hash_elements(&remainder);
    if *strategy == Strategy::S6WrongRemainderCommitment {
        rem_commitment = H::hash_elements(&[remainder[0] + E::ONE]);
    }
    coin.reseed(rem_commitment);
    let positions = coin.draw_integers(cfg.num_queries, cfg.domain(), nonce).expect("harness: positions");

    if *strategy == Strategy::S1AdaptiveRemainder || *strategy == Strategy::S8ExtraCommitment {
        // fold the positions down to the remainder domain and interpolate through the values there
        let mut pos = positions.clone();
        let mut d = cfg.domain();
        for _ in 0..layers_n {
            pos = fri::folding::fold_positions(&pos, d, N);
            d /= N;
        }
        let g = B::get_root_of_unity(d.ilog2().max(1));
        let xs: Vec<E> = pos.iter().map(|&p| E::from(B::GENERATOR * if d > 1 { g.exp((p as u64).into()) } else { B::ONE })).collect();
        let ys: Vec<E> = pos.iter().map(|&p| last_evals[p]).collect();
        if xs.len() <= remainder.len() {
            let mut poly = math::polynom::interpolate(&xs, &ys, true);
            // make it differ from the honest remainder where there is room: add c * V(x)
            if xs.len() < remainder.len() {
                let v = math::polynom::poly_from_roots(&xs);
                poly.resize(remainder.len(), E::ZERO);
                for (i, c) in v.iter().enumerate() {
                    poly[i] += *c;
                }
            }
            poly.resize(remainder.len(), E::ZERO);
            remainder = poly;
        }
    }

    let mut commitments = roots.clone();
    commitments.push(rem_commitment);
    if *strategy == Strategy::S8ExtraCommitment {
        commitments.push(H::hash_elements(&remainder));
    }
    if let Strategy::S4SwapCommitments { a } = strategy {
        if a + 1 < commitments.len() {
            commitments.swap(*a, a + 1);
        }
    }

    // proof object, through its wire form (the constructors are crate-private)
    let mut bytes = vec![layers_n as u8];
    let mut pos = positions.clone();
    let mut d = cfg.domain();
    for (t, tree) in trees.iter() {
        pos = fri::folding::fold_positions(&pos, d, N);
        let bp = tree.prove_batch(&pos).expect("harness: prove_batch");
        let mut values = vec![];
        for &p in pos.iter() {
            for e in t[p].iter() {
                e.write_into(&mut values);
            }
        }
        let paths = bp.serialize_nodes();
        bytes.extend_from_slice(&(values.len() as u32).to_le_bytes());
        bytes.extend_from_slice(&values);
        bytes.extend_from_slice(&(paths.len() as u32).to_le_bytes());
        bytes.extend_from_slice(&paths);
        d /= N;
    }
    let mut rb = vec![];
    for e in &remainder {
        e.write_into(&mut rb);
    }
    bytes.extend_from_slice(&(rb.len() as u16).to_le_bytes());
    bytes.extend_from_slice(&rb);
    bytes.push(0); // one partition
    let proof = FriProof::read_from_bytes(&bytes).expect("harness: FriProof wire form");
    Built { layers, roots, commitments, alphas_used, last_evals, remainder, positions, nonce, proof }
}

// REFERENCE FRI VERIFIER (spec level, over the full committed data)
// ------------------------------------------------------------------------------------------------

/// Lagrange evaluation at `alpha` of the polynomial through (xs[k], ys[k])
fn lagrange_at<E: FieldElement>(xs: &[E], ys: &[E], alpha: E) -> E {
    let mut acc = E::ZERO;
    for i in 0..xs.len() {
        let mut num = E::ONE;
        let mut den = E::ONE;
        for j in 0..xs.len() {
            if i != j {
                num *= alpha - xs[j];
                den *= xs[i] - xs[j];
            }
        }
        acc += ys[i] * num / den;
    }
    acc
}

/// Accept iff: the degree schedule divides; every layer the verifier looks at authenticates
/// (its commitment is the root of the committed data); the claimed evaluations equal layer 0 at
/// every queried position; every queried position is fold-consistent between consecutive layers
/// under the VERIFIER's alphas (derived from the commitments it was given); the remainder has at
/// most the allowed number of coefficients, equals the last fold at every queried position, and
/// hashes to the last commitment, which was absorbed before the positions were drawn.
pub fn reference_verdict<B, E, H>(cfg: &FriCfg, built: &Built<E, H>, claimed: &[E], max_degree: usize) -> Result<(), String>
where
    B: StarkField,
    E: FieldElement<BaseField = B>,
    H: ElementHasher<BaseField = B>,
{
    let n_fold = cfg.folding;
    let layers_n = cfg.layers();
    if built.commitments.len() != layers_n + 1 {
        return Err("wrong number of commitments".into());
    }
    // verifier's alphas
    let mut coin = DefaultRandomCoin::<H>::new(&[]);
    let mut alphas: Vec<E> = vec![];
    let mut mdp1 = max_degree + 1;
    for (depth, c) in built.commitments.iter().enumerate() {
        coin.reseed(*c);
        alphas.push(coin.draw().map_err(|_| "coin".to_string())?);
        if depth != built.commitments.len() - 1 && mdp1 % n_fold != 0 {
            return Err(format!("degree truncation at layer {depth}"));
        }
        mdp1 /= n_fold;
    }
    let mut mdp1 = max_degree + 1;
    let mut d = cfg.domain();
    let mut positions = built.positions.clone();
    let mut current: Vec<E> = claimed.to_vec();
    for depth in 0..layers_n {
        let m = d / n_fold;
        if built.commitments[depth] != built.roots[depth] {
            return Err(format!("layer {depth} does not authenticate against the commitment given to the verifier"));
        }
        let layer = &built.layers[depth];
        let w = B::get_root_of_unity(d.ilog2());
        let mut folded_positions: Vec<usize> = vec![];
        for p in positions.iter() {
            let q = p % m;
            if !folded_positions.contains(&q) {
                folded_positions.push(q);
            }
        }
        for (p, v) in positions.iter().zip(current.iter()) {
            if layer[*p] != *v {
                return Err(format!("layer {depth}: value at position {p} is not the value carried down"));
            }
        }
        let mut next = vec![];
        for q in folded_positions.iter() {
            let xs: Vec<E> = (0..n_fold).map(|k| E::from(B::GENERATOR * w.exp(((q + k * m) as u64).into()))).collect();
            let ys: Vec<E> = (0..n_fold).map(|k| layer[q + k * m]).collect();
            next.push(lagrange_at(&xs, &ys, alphas[depth]));
        }
        if mdp1 % n_fold != 0 {
            return Err(format!("degree truncation at layer {depth}"));
        }
        mdp1 /= n_fold;
        d = m;
        positions = folded_positions;
        current = next;
    }
    if built.remainder.len() > mdp1 {
        return Err("remainder has more coefficients than allowed".into());
    }
    if H::hash_elements(&built.remainder) != *built.commitments.last().unwrap() {
        return Err("remainder is not the one committed to before the positions were drawn".into());
    }
    let w = if d > 1 { B::get_root_of_unity(d.ilog2()) } else { B::ONE };
    for (p, v) in positions.iter().zip(current.iter()) {
        let x = E::from(B::GENERATOR * w.exp((*p as u64).into()));
        let mut acc = E::ZERO;
        for c in built.remainder.iter().rev() {
            acc = acc * x + *c;
        }
        if acc != *v {
            return Err(format!("remainder disagrees with the last fold at position {p}"));
        }
    }
    Ok(())
}

/// evaluations of the polynomial with the given coefficients over offset * <w_D>
pub fn coset_evaluate<B: StarkField, E: FieldElement<BaseField = B>>(coeffs: &[E], domain: usize) -> Vec<E> {
    let mut p = coeffs.to_vec();
    p.resize(domain, E::ZERO);
    let off = B::GENERATOR;
    let mut s = B::ONE;
    for c in p.iter_mut() {
        *c = c.mul_base(s);
        s *= off;
    }
    let tw = fft::get_twiddles::<B>(domain);
    fft::evaluate_poly(&mut p, &tw);
    p
}
