//! C05 — FRI soundness against a Byzantine prover, and C15 — FRI completeness and the folding
//! identity (honest channel). Both run on the FRI sim.

use crypto::{DefaultRandomCoin, ElementHasher, RandomCoin};
use fri::{DefaultVerifierChannel, FriProof, FriProver, FriVerifier};
use math::fields::{CubeExtension, QuadExtension};
use math::{FieldElement, StarkField};
use simcore::{guard, Arm, CheckSpec, Chooser, Ctx, FnArm, PanicInfo, RunInfo, Tier};
use utils::{Deserializable, ReadAdapter, Serializable};

use crate::dispatch::*;
use crate::fri_sim::*;
use crate::pipe::variant_name;
use crate::proto::{felt, SimField};

#[derive(Debug, Clone)]
pub enum FriVerdict {
    Accept,
    Reject(String),
    Panic(PanicInfo),
}

impl FriVerdict {
    pub fn accepted(&self) -> bool {
        matches!(self, FriVerdict::Accept)
    }
    pub fn short(&self) -> String {
        match self {
            FriVerdict::Accept => "accept".into(),
            FriVerdict::Reject(e) => format!("reject({e})"),
            FriVerdict::Panic(p) => format!("PANIC({})", p.signature()),
        }
    }
}

pub fn real_verify<B, E, H>(cfg: &FriCfg, proof: FriProof, commitments: Vec<H::Digest>, claimed: &[E], positions: &[usize], max_degree: usize) -> FriVerdict
where
    B: StarkField,
    E: FieldElement<BaseField = B>,
    H: ElementHasher<BaseField = B>,
{
    let r = guard(|| {
        let mut channel = match DefaultVerifierChannel::<E, H>::new(proof, commitments, cfg.domain(), cfg.folding) {
            Ok(c) => c,
            Err(e) => return Err(format!("parse:{}", variant_name(&format!("{:?}", e)))),
        };
        let mut coin = DefaultRandomCoin::<H>::new(&[]);
        let verifier = FriVerifier::new(&mut channel, &mut coin, cfg.options(), max_degree).map_err(|e| variant_name(&format!("{:?}", e)))?;
        verifier.verify(&mut channel, claimed, positions).map_err(|e| variant_name(&format!("{:?}", e)))
    });
    match r {
        Ok(Ok(())) => FriVerdict::Accept,
        Ok(Err(e)) => FriVerdict::Reject(e),
        Err(p) => FriVerdict::Panic(p),
    }
}

/// As the STARK verifier does it: the query positions are drawn from the verifier's OWN coin,
/// after `FriVerifier::new` has absorbed the commitments it was given (with the prover's nonce).
/// When they differ from the positions the prover opened, the verifier asks for its own
/// positions (claimed evaluations = the function there); the proof then answers other questions.
pub fn real_verify_own_positions<B, E, H>(cfg: &FriCfg, proof: FriProof, commitments: Vec<H::Digest>, f0: &[E], claimed: &[E], prover_positions: &[usize], max_degree: usize, nonce: u64) -> (FriVerdict, Vec<usize>)
where
    B: StarkField,
    E: FieldElement<BaseField = B>,
    H: ElementHasher<BaseField = B>,
{
    let mut vpos: Vec<usize> = vec![];
    let r = guard(|| {
        let mut channel = match DefaultVerifierChannel::<E, H>::new(proof, commitments, cfg.domain(), cfg.folding) {
            Ok(c) => c,
            Err(e) => return Err(format!("parse:{}", variant_name(&format!("{:?}", e)))),
        };
        let mut coin = DefaultRandomCoin::<H>::new(&[]);
        let verifier = FriVerifier::new(&mut channel, &mut coin, cfg.options(), max_degree).map_err(|e| variant_name(&format!("{:?}", e)))?;
        vpos = coin.draw_integers(cfg.num_queries, cfg.domain(), nonce).map_err(|e| variant_name(&format!("{:?}", e)))?;
        if vpos == prover_positions {
            verifier.verify(&mut channel, claimed, &vpos).map_err(|e| variant_name(&format!("{:?}", e)))
        } else {
            let own: Vec<E> = vpos.iter().map(|&p| f0[p]).collect();
            verifier.verify(&mut channel, &own, &vpos).map_err(|e| variant_name(&format!("{:?}", e)))
        }
    });
    let v = match r {
        Ok(Ok(())) => FriVerdict::Accept,
        Ok(Err(e)) => FriVerdict::Reject(e),
        Err(p) => FriVerdict::Panic(p),
    };
    (v, vpos)
}

pub fn gen_fri_cfg(ch: &mut Chooser, max_log_domain: u32) -> FriCfg {
    loop {
        let blowup = [2usize, 4, 8, 16, 32, 64, 128][ch.weighted("fri.blowup", &[5, 5, 4, 2, 1, 1, 1])];
        let min_log = (blowup.ilog2() + 3).max(3);
        if min_log > max_log_domain {
            continue;
        }
        let log_domain = min_log + ch.index("fri.logdomain", (max_log_domain - min_log + 1) as usize) as u32;
        let folding = [2usize, 4, 8, 16][ch.weighted("fri.folding", &[3, 3, 2, 3])];
        let mut rmax = [0usize, 1, 3, 7, 15, 31, 63, 127, 255][ch.weighted("fri.rmax", &[3, 2, 2, 3, 2, 2, 1, 1, 2])];
        // FriOptions::new takes ANY remainder degree 0..255 (only ProofOptions insists on
        // 2^k - 1): one configuration in four uses one that is not of that form (2, 4, 5, 6, 9, 11, ...)
        if ch.chance("fri.rmax.any?", 1, 4) {
            rmax = ch.biased("fri.rmax.value", 0, 255, &[2, 4, 5, 6, 9, 11, 12, 100, 254]) as usize;
        }
        let domain = 1usize << log_domain;
        let nq = ch.biased("fri.queries", 1, (domain - 1).min(64) as u64, &[1, 2, 3, 7, 8, 32, 64]) as usize;
        let cfg = FriCfg { log_domain, blowup, folding, rmax, num_queries: nq };
        if cfg.well_formed() {
            return cfg;
        }
        // fall back to folding by two, which is always well formed
        let cfg = FriCfg { folding: 2, ..cfg };
        if cfg.well_formed() {
            return cfg;
        }
    }
}

pub fn rand_elem<E: FieldElement>(rng: &mut simcore::rng::Xoshiro) -> E {
    let mut e = E::ZERO;
    let mut acc = E::ONE;
    for _ in 0..E::EXTENSION_DEGREE {
        e += acc * E::from(felt::<E::BaseField>(rng.next() >> 2));
        acc *= E::from(felt::<E::BaseField>(rng.next() >> 2));
    }
    e
}

/// Multiplies the polynomial by (x - x_i) for `k` points x_i of the evaluation domain
/// (offset * w^i), so that the committed function has exact zeros at known places: zeros never
/// occur in pseudo-random data, and the interpolation / folding code treats them separately.
/// Returns the indices of the roots.
pub fn add_domain_roots<B: StarkField, E: FieldElement<BaseField = B>>(c: &mut Vec<E>, rng: &mut simcore::rng::Xoshiro, domain: usize, k: usize) -> Vec<usize> {
    let w = B::get_root_of_unity(domain.ilog2());
    let mut idx = vec![];
    for _ in 0..k {
        let i = rng.below(domain as u64) as usize;
        idx.push(i);
        let x = E::from(B::GENERATOR * w.exp((i as u64).into()));
        // c(x) * (x - x_i)
        let mut out = vec![E::ZERO; c.len() + 1];
        for (j, cj) in c.iter().enumerate() {
            out[j + 1] += *cj;
            out[j] -= *cj * x;
        }
        *c = out;
    }
    idx
}

#[derive(Clone, Copy, PartialEq, Eq, Debug)]
pub enum Which {
    Byzantine,
    Honest,
    /// the honest scenario in the concurrent build, under a simulated thread pool
    HonestScheduled,
}

struct FriJob<'a> {
    ch: &'a mut Chooser,
    ctx: &'a mut Ctx,
    which: Which,
    thorough: bool,
}

impl<'a> Job for FriJob<'a> {
    type Out = ();
    fn run<B: SimField, H: ElementHasher<BaseField = B> + Send + Sync + 'static>(self) {
        let ext = self.ch.weighted("fri.ext", &[3, 2, 2]);
        match ext {
            1 if QuadExtension::<B>::is_supported() => go::<B, QuadExtension<B>, H>(self.ch, self.ctx, self.which, self.thorough),
            2 if CubeExtension::<B>::is_supported() => go::<B, CubeExtension<B>, H>(self.ch, self.ctx, self.which, self.thorough),
            _ => go::<B, B, H>(self.ch, self.ctx, self.which, self.thorough),
        }
    }
}

fn go<B: SimField, E: FieldElement<BaseField = B>, H: ElementHasher<BaseField = B> + Send + Sync + 'static>(ch: &mut Chooser, ctx: &mut Ctx, which: Which, thorough: bool) {
    match which {
        Which::Byzantine => byzantine::<B, E, H>(ch, ctx, thorough),
        Which::Honest => honest::<B, E, H>(ch, ctx, thorough, false),
        Which::HonestScheduled => honest_scheduled::<B, E, H>(ch, ctx, thorough),
    }
}

// C05: BYZANTINE PROVER
// ------------------------------------------------------------------------------------------------

/// Domains at and beyond 2^32 points - as large as the two-adicity of the field allows (2^32 for the
/// 64-bit field, 2^39 / 2^40 for the 62- and 128-bit ones). Nothing of that size can be committed
/// to layer by layer; but a schedule with ZERO layers needs no tree: the remainder is the whole
/// message, and the function only has to exist at the positions the verifier asks for. The prover
/// commits to a two-coefficient remainder a + b x; the claimed evaluations are either that
/// polynomial (control: accept) or a + b x on the lower half of the domain and a - b x on the
/// upper half (at distance 1/2 from every polynomial of the claimed degree: reject as soon as one
/// position lies in the upper half).
fn huge_domain<B: SimField, E: FieldElement<BaseField = B>, H: ElementHasher<BaseField = B>>(ch: &mut Chooser, ctx: &mut Ctx) {
    let max_log = B::TWO_ADICITY.min(40);
    let log_domain = if max_log <= 32 { 32 } else { *ch.choose("huge.log", &[33u32, max_log, 32, 34, max_log - 1]) };
    let blowup = [8usize, 2, 4, 16][ch.index("huge.blowup", 4)];
    let domain = 1usize << log_domain;
    let max_degree = domain / blowup - 1;
    let nq = 1 + ch.index("huge.queries", 32);
    let far = ch.chance("huge.far?", 1, 2);
    let salt = ch.u64("huge.salt");
    let mut rng = simcore::rng::Xoshiro::from_u64(salt);
    let (a, b) = (rand_elem::<E>(&mut rng), rand_elem::<E>(&mut rng) + E::ONE);
    let remainder = vec![a, b];
    let commitment = H::hash_elements(&remainder);
    ctx.fault(if far { "huge_domain_far_function" } else { "huge_domain_control" });
    ctx.event_with("setup", (log_domain as u64) << 8 | far as u64, || format!("zero-layer schedule over 2^{log_domain} points, blowup {blowup}, {nq} queries, {}", if far { "a + b x below the middle of the domain, a - b x above" } else { "a + b x (control)" }));
    // wire form: no layers, the remainder, one partition
    let mut bytes = vec![0u8];
    let mut rb = vec![];
    for e in &remainder {
        e.write_into(&mut rb);
    }
    bytes.extend_from_slice(&(rb.len() as u16).to_le_bytes());
    bytes.extend_from_slice(&rb);
    bytes.push(0);
    let proof = FriProof::read_from_bytes(&bytes).expect("harness: FriProof wire form");
    let g = B::get_root_of_unity(log_domain);
    let mut positions: Vec<usize> = vec![];
    let mut upper = false;
    let r = guard(|| {
        let options = fri::FriOptions::new(blowup, 2, max_degree);
        let mut channel = match DefaultVerifierChannel::<E, H>::new(proof, vec![commitment], domain, 2) {
            Ok(c) => c,
            Err(e) => return Err(format!("parse:{}", variant_name(&format!("{:?}", e)))),
        };
        let mut coin = DefaultRandomCoin::<H>::new(&[]);
        let verifier = FriVerifier::new(&mut channel, &mut coin, options, max_degree).map_err(|e| variant_name(&format!("{:?}", e)))?;
        positions = coin.draw_integers(nq, domain, 0).map_err(|e| variant_name(&format!("{:?}", e)))?;
        let claimed: Vec<E> = positions
            .iter()
            .map(|&p| {
                let x = E::from(B::GENERATOR * g.exp((p as u64).into()));
                if far && p >= domain / 2 {
                    upper = true;
                    a - b * x
                } else {
                    a + b * x
                }
            })
            .collect();
        verifier.verify(&mut channel, &claimed, &positions).map_err(|e| variant_name(&format!("{:?}", e)))
    });
    if positions.iter().any(|p| *p >= 1usize << 32) {
        ctx.probe("queried_position_at_or_beyond_2_pow_32");
    }
    let ctxt = || format!("zero-layer schedule over 2^{log_domain} points, blowup {blowup}, positions {:?}", &positions[..positions.len().min(6)]);
    match r {
        Err(p) => ctx.violation(format!("C05/huge-domain/verifier-panic {}", p.signature()), format!("{}:{}: {}; {}", p.file, p.line, p.msg, ctxt())),
        Ok(Ok(())) if far && upper => ctx.violation(
            "C05/huge-domain/far-function-accepted",
            format!("a function that is a + b x on one half of the domain and a - b x on the other was accepted although a queried position lies in the other half; {}", ctxt()),
        ),
        Ok(Ok(())) => {},
        Ok(Err(e)) if !far => ctx.violation(format!("C05/huge-domain/control-rejected {e}"), format!("the evaluations of a + b x were rejected with {e}; {}", ctxt())),
        Ok(Err(_)) => {},
    }
}

fn byzantine<B: SimField, E: FieldElement<BaseField = B>, H: ElementHasher<BaseField = B>>(ch: &mut Chooser, ctx: &mut Ctx, thorough: bool) {
    if ch.chance("huge.domain?", 1, 25) {
        return huge_domain::<B, E, H>(ch, ctx);
    }
    let cfg = gen_fri_cfg(ch, if thorough { 12 } else { 10 });
    let full = cfg.n();
    let domain = cfg.domain();
    // The claimed bound + 1 is usually the whole polynomial size domain / blowup (as in a STARK),
    // but the FRI API takes any bound: one run in four claims a bound + 1 that is NOT a power of
    // two - a multiple of folding^layers in (size / 2, size), so that the degree schedule still
    // divides and the domain is the same. Polynomials of degree bound + 1 .. size - 1 must then be
    // refused although they fit the domain's own schedule.
    let fl = cfg.folding.pow(cfg.layers() as u32);
    // (FriVerifier::new infers the domain as next_power_of_two(max degree) * blowup, so a bound + 1
    // of full / 2 + 1 - max degree itself a power of two - names another domain: not claimed)
    let mut n = if full / fl >= 4 && ch.chance("bound.not_pow2?", 1, 4) { full - fl * (1 + ch.index("bound.j", full / (2 * fl) - 1)) } else { full };
    if (n - 1).is_power_of_two() && n != full {
        n = full;
    }
    if n != full {
        ctx.probe("claimed_bound_plus_one_not_a_power_of_two");
    }
    let max_degree = n - 1;
    let salt = ch.u64("fn.salt");
    let mut rng = simcore::rng::Xoshiro::from_u64(salt);
    // the function
    let fkind = ch.weighted("fn.kind", &[3, 3, 3, 2, 2]);
    let (f0, far, fdesc): (Vec<E>, bool, String) = match fkind {
        0 => ((0..domain).map(|_| rand_elem::<E>(&mut rng)).collect(), true, "uniformly random function".into()),
        1 => {
            // polynomial of degree n .. domain-1 (bias to just above the bound)
            let deg = if ch.chance("fn.justabove?", 1, 2) { n + ch.index("fn.above", 3.min(domain - n)) } else { n + ch.index("fn.deg", domain - n) };
            let mut c: Vec<E> = (0..=deg).map(|_| rand_elem::<E>(&mut rng)).collect();
            if *c.last().unwrap() == E::ZERO {
                *c.last_mut().unwrap() = E::ONE;
            }
            (coset_evaluate::<B, E>(&c, domain), true, format!("polynomial of degree {deg} (bound {max_degree})"))
        },
        2 => {
            // low-degree polynomial corrupted on a fraction of the domain
            let c: Vec<E> = (0..n).map(|_| rand_elem::<E>(&mut rng)).collect();
            let mut f = coset_evaluate::<B, E>(&c, domain);
            let frac = [domain / 2, domain / 4, domain * 3 / 4, 1, 2, domain / 8 + 1][ch.index("fn.corrupt", 6)].max(1);
            for _ in 0..frac {
                let i = rng.below(domain as u64) as usize;
                f[i] += E::ONE + rand_elem::<E>(&mut rng);
            }
            // Acceptance of a corrupted low-degree function is a matter of which positions are
            // queried (FRI's soundness error: with one query on a 16-point domain the honest
            // remainder check passes whenever the corrupted indices have the parity of the queried
            // one), so it is decided by the reference verifier alone, never asserted.
            (f, false, format!("degree-{max_degree} polynomial corrupted at ~{frac} of {domain} points"))
        },
        3 => {
            // control: genuinely low degree
            let deg = [n - 1, 0, n / 2][ch.index("fn.lowdeg", 3)];
            // one control in three vanishes at up to 16 points of the domain (exact zeros inside
            // the opened rows)
            let k = if deg >= 1 && ch.chance("fn.roots?", 1, 3) { 1 + ch.index("fn.nroots", deg.min(16)) } else { 0 };
            let mut c: Vec<E> = (0..=deg - k).map(|_| rand_elem::<E>(&mut rng)).collect();
            if k > 0 {
                if *c.last().unwrap() == E::ZERO {
                    *c.last_mut().unwrap() = E::ONE;
                }
                add_domain_roots::<B, E>(&mut c, &mut rng, domain, k);
                ctx.probe("control_with_exact_zeros_on_the_domain");
            }
            (coset_evaluate::<B, E>(&c, domain), false, format!("polynomial of degree {deg} with {k} roots on the domain (control)"))
        },
        _ => {
            // degree exactly one above the bound
            let mut c: Vec<E> = (0..=n).map(|_| rand_elem::<E>(&mut rng)).collect();
            c[n] = E::ONE;
            (coset_evaluate::<B, E>(&c, domain), true, format!("polynomial of degree {n} = bound + 1"))
        },
    };
    let layers = cfg.layers();
    // (an over-long remainder must still fit the u16 length prefix of the wire form)
    let s5_ok = domain * E::ELEMENT_BYTES < 60_000;
    let strategy = match ch.weighted("strategy", &[5, 3, if layers > 0 { 3 } else { 0 }, if layers > 0 { 2 } else { 0 }, if layers > 0 { 2 } else { 0 }, if s5_ok { 3 } else { 0 }, 2, 2, if cfg.remainder_size() >= 2 { 3 } else { 0 }]) {
        0 => Strategy::Honest,
        1 => Strategy::S1AdaptiveRemainder,
        2 => Strategy::S2TamperValue { layer: ch.index("s2.layer", layers), index: ch.index("s2.index", domain) },
        3 => Strategy::S3WrongAlpha { layer: ch.index("s3.layer", layers) },
        4 => Strategy::S4SwapCommitments { a: ch.index("s4.a", layers) },
        5 => Strategy::S5LongRemainder,
        6 => Strategy::S6WrongRemainderCommitment,
        7 => Strategy::S8ExtraCommitment,
        _ => Strategy::S9ShortRemainder { pick: ch.index("s9.pick", 4096) },
    };
    ctx.event_with("setup", simcore::rng::fnv1a(format!("{:?}{:?}{fdesc}", cfg, strategy).as_bytes()), || {
        format!("{:?} ({} layers, remainder size {}), {fdesc}, strategy {:?}", cfg, layers, cfg.remainder_size(), strategy)
    });
    ctx.fault(match &strategy {
        Strategy::Honest => "byzantine_far_function_honest_folding",
        Strategy::S1AdaptiveRemainder => "byzantine_remainder_after_queries",
        Strategy::S2TamperValue { .. } => "byzantine_tampered_layer_value",
        Strategy::S3WrongAlpha { .. } => "byzantine_wrong_folding_challenge",
        Strategy::S4SwapCommitments { .. } => "byzantine_swapped_commitments",
        Strategy::S5LongRemainder => "byzantine_long_remainder",
        Strategy::S6WrongRemainderCommitment => "byzantine_wrong_remainder_commitment",
        Strategy::S8ExtraCommitment => "byzantine_extra_commitment_after_queries",
        Strategy::S9ShortRemainder { .. } => "byzantine_short_remainder",
    });
    // the adversary may grind the nonce (commitments do not depend on it): for the tampering
    // strategy look for a nonce under which the tampered value is actually queried, preferably as
    // a position that is NOT the first one of its coset row
    let mut built = build::<B, E, H>(&cfg, f0.clone(), &strategy, 0);
    if let Strategy::S2TamperValue { layer, index } = &strategy {
        let hit = |b: &Built<E, H>| -> u8 {
            let mut pos = b.positions.clone();
            let mut d = cfg.domain();
            for _ in 0..*layer {
                pos = fri::folding::fold_positions(&pos, d, cfg.folding);
                d /= cfg.folding;
            }
            let k = index % d;
            let m = d / cfg.folding;
            match pos.iter().position(|p| *p == k) {
                None => 0,
                Some(i) => {
                    if pos[..i].iter().any(|q| q % m == k % m) {
                        2
                    } else {
                        1
                    }
                },
            }
        };
        let mut best = hit(&built);
        for nonce in 1..24u64 {
            if best == 2 {
                break;
            }
            let b2 = build::<B, E, H>(&cfg, f0.clone(), &strategy, nonce);
            let h = hit(&b2);
            if h > best {
                best = h;
                built = b2;
            }
        }
        ctx.probe(match best {
            2 => "tampered_value_queried_as_non_first_of_its_row",
            1 => "tampered_value_queried",
            _ => "tampered_value_not_queried",
        });
    }
    // the verifier is given the claimed evaluations at the queried positions
    let mut claimed: Vec<E> = built.positions.iter().map(|&p| f0[p]).collect();
    let mut wrong_claim = false;
    if strategy == Strategy::Honest && !far && ch.chance("s7.wrongclaim?", 1, 2) {
        // S7: layer 0 is committed honestly but one claimed evaluation handed to the verifier is
        // wrong - preferably at a position that shares its coset row with an earlier position
        let m = cfg.domain() / cfg.folding;
        let pos = &built.positions;
        let later: Vec<usize> = (0..pos.len()).filter(|&i| pos[..i].iter().any(|q| q % m == pos[i] % m)).collect();
        let i = if !later.is_empty() { later[ch.index("s7.later", later.len())] } else { ch.index("s7.any", pos.len()) };
        // every occurrence of that position must carry the same wrong value or the claim is
        // inconsistent with itself
        let p = pos[i];
        for (j, q) in pos.iter().enumerate() {
            if *q == p {
                claimed[j] += E::ONE;
            }
        }
        wrong_claim = true;
        ctx.fault("byzantine_wrong_claimed_evaluation");
        ctx.probe(if later.is_empty() { "wrong_claim_at_a_first_of_row_position" } else { "wrong_claim_at_a_non_first_of_row_position" });
    }
    if layers > 0 {
        let m = domain / cfg.folding;
        if built.positions.iter().any(|p| (0..cfg.folding).any(|j| f0[p % m + j * m] == E::ZERO)) {
            ctx.probe("exact_zero_inside_an_opened_row");
        }
    }
    let sname0 = format!("{:?}", strategy).split(|c: char| !c.is_alphanumeric()).next().unwrap_or("").to_string();
    let reference = reference_verdict::<B, E, H>(&cfg, &built, &claimed, max_degree);
    let (real, vpos) = real_verify_own_positions::<B, E, H>(&cfg, built.proof.clone(), built.commitments.clone(), &f0, &claimed, &built.positions, max_degree, built.nonce);
    // Do the verifier's own positions ask for the same rows as the ones the prover opened? (The
    // first folding maps a position to its coset row; with no layers the positions themselves
    // count.) A prover that could not know the positions - because they depend on a commitment it
    // chose afterwards - still meets them by chance on small domains: that is the protocol's
    // soundness error, not a defect, and is counted, not asserted.
    let row = |p: usize| if layers > 0 { p % (domain / cfg.folding) } else { p };
    let mut rows_v: Vec<usize> = vpos.iter().map(|&p| row(p)).collect();
    let mut rows_p: Vec<usize> = built.positions.iter().map(|&p| row(p)).collect();
    rows_v.sort_unstable();
    rows_v.dedup();
    rows_p.sort_unstable();
    rows_p.dedup();
    let same_rows = rows_v == rows_p;
    if vpos != built.positions {
        ctx.probe(if same_rows { "verifier_positions_differ_same_rows_by_chance" } else { "verifier_positions_differ_from_the_prover_s" });
        if strategy != Strategy::S8ExtraCommitment && !matches!(strategy, Strategy::S4SwapCommitments { .. }) && !vpos.is_empty() {
            ctx.violation(
                format!("C05/verifier-positions-differ {sname0}"),
                format!("the verifier's coin, after absorbing the commitments it was given, draws other positions than the prover's coin after the same commitments; {:?}", cfg),
            );
            return;
        }
    }
    ctx.event_with("verdict", simcore::rng::fnv1a(format!("{}{:?}", real.short(), reference).as_bytes()), || format!("real verifier: {}; reference verifier: {:?}", real.short(), reference));
    let ctxt = || format!("{:?}, {fdesc}, strategy {:?}, {} queries at {:?}", cfg, strategy, built.positions.len(), &built.positions[..built.positions.len().min(6)]);
    let sname = format!("{:?}", strategy).split(|c: char| !c.is_alphanumeric()).next().unwrap_or("").to_string();
    if let FriVerdict::Panic(p) = &real {
        ctx.violation(format!("C05/verifier-panic {}", p.signature()), format!("FRI verifier panicked at {}:{}: {}; {}", p.file, p.line, p.msg, ctxt()));
        return;
    }
    if vpos != built.positions && same_rows && real.accepted() {
        // the prover guessed the rows (see above): every check the verifier makes is satisfied
        ctx.probe("accepted_because_the_prover_guessed_the_rows");
        return;
    }
    if strategy == Strategy::S8ExtraCommitment {
        // A surplus commitment as such is not forbidden by the property (for a genuinely
        // low-degree function with its true remainder the verifier may accept), so the reference
        // verdict - which refuses any other number of commitments - is not compared. What must
        // hold: the late commitment does not help a far function, because the positions depend
        // on it.
        // The positions are drawn after the surplus commitment was absorbed, so the prover could
        // only guess them: P(all q verifier rows fall into the prover's row set) = (r/R)^q.
        // Asserted only where that is below 2^-40; otherwise counted.
        let total_rows = if layers > 0 { domain / cfg.folding } else { domain };
        let guess_log2 = cfg.num_queries as f64 * ((rows_p.len() as f64) / (total_rows as f64)).log2();
        if far && real.accepted() && guess_log2 > -40.0 {
            ctx.probe("s8_accepted_where_the_positions_can_be_guessed");
        }
        if far && real.accepted() && guess_log2 <= -40.0 {
            ctx.violation(
                "C05/far-function-accepted-with-a-commitment-made-after-the-queries",
                format!("a remainder interpolated after the positions were known, committed to by a surplus last commitment, was accepted: the positions do not depend on every commitment the verifier uses; {}", ctxt()),
            );
        }
        return;
    }
    // (i) real verdict == reference verdict
    match (real.accepted(), &reference) {
        (true, Err(why)) => {
            let w = why.split(|c: char| c.is_ascii_digit()).next().unwrap_or(why).trim().to_string();
            ctx.violation(
                format!("C05/accepted-but-reference-rejects {sname}: {w}"),
                format!("the FRI verifier accepted, the reference verifier rejects because: {why}; {}", ctxt()),
            );
        },
        (false, Ok(())) => {
            ctx.violation(format!("C05/rejected-but-reference-accepts {sname} {}", real.short()), format!("the FRI verifier returned {}, the reference verifier accepts; {}", real.short(), ctxt()));
        },
        _ => {},
    }
    // (ii) a far function folded honestly must be rejected; (iii) the control must be accepted
    if far && strategy == Strategy::Honest && real.accepted() {
        ctx.violation("C05/far-function-accepted", format!("honest folding of a function that is far from degree {max_degree} was accepted; {}", ctxt()));
    }
    if wrong_claim && real.accepted() {
        ctx.violation("C05/wrong-claimed-evaluation-accepted", format!("a claimed evaluation that differs from the committed layer-0 value was accepted; {}", ctxt()));
    }
    // (with a bound + 1 that is not a power of two the honest remainder, which always has a
    // power-of-two number of coefficients, is longer than the bound allows: no completeness claim)
    if !far && fkind == 3 && strategy == Strategy::Honest && !wrong_claim && !real.accepted() && n == full {
        ctx.violation(format!("C05/control-rejected {}", real.short()), format!("honest proof for a low-degree polynomial rejected; {}", ctxt()));
    }
    if far && strategy == Strategy::S5LongRemainder && real.accepted() {
        ctx.violation("C05/over-degree-polynomial-accepted-with-long-remainder", format!("a remainder longer than the degree schedule allows was accepted; {}", ctxt()));
    }
}

// C15: HONEST CHANNEL
// ------------------------------------------------------------------------------------------------

#[cfg(not(feature = "concurrent"))]
fn honest_scheduled<B: SimField, E: FieldElement<BaseField = B>, H: ElementHasher<BaseField = B>>(_ch: &mut Chooser, ctx: &mut Ctx, _thorough: bool) {
    ctx.skipped = Some("needs_the_concurrent_build");
}

/// The honest scenario with the `concurrent` feature: the FRI prover's folding (apply_drp, row
/// hashing, Merkle construction, remainder interpolation) then runs on rayon, i.e. on SimRayon.
/// Pool size from the tape; the schedule choices come from a private PRNG seeded with a taped
/// salt (salt 0 = the in-order schedule), because the scenario itself owns the run's chooser.
#[cfg(feature = "concurrent")]
fn honest_scheduled<B: SimField, E: FieldElement<BaseField = B>, H: ElementHasher<BaseField = B>>(ch: &mut Chooser, ctx: &mut Ctx, thorough: bool) {
    let pool = if ch.chance("pool.any?", 1, 3) { 1 + ch.index("pool.size", 64) } else { crate::c14::POOLS[ch.index("pool.pick", crate::c14::POOLS.len())] };
    let salt = ch.u64("sched.salt");
    let mut rng = simcore::rng::Xoshiro::from_u64(salt);
    let mut picker = move |_site: &'static str, n: u64| if salt == 0 { 0 } else { rng.below(n) };
    ctx.event("pool", pool as u64, salt);
    if !pool.is_power_of_two() {
        ctx.fault("pool_size_not_power_of_two");
    }
    if pool > 16 {
        ctx.fault("pool_larger_than_16");
    }
    rayon::sim::with_schedule(pool, &mut picker, || honest::<B, E, H>(ch, ctx, thorough, true));
    let st = rayon::sim::stats();
    ctx.probe_n("tasks", st.tasks);
    ctx.probe_n("reordered_tasks", st.reorders);
    if st.reorders > 0 {
        ctx.fault("schedule_reordered_tasks");
    }
}

fn honest<B: SimField, E: FieldElement<BaseField = B>, H: ElementHasher<BaseField = B>>(ch: &mut Chooser, ctx: &mut Ctx, thorough: bool, large: bool) {
    // "big openings": 255 distinct coset rows of 16 elements of 24 or 32 bytes each - the opened
    // values of the first layer then need more than 65535 bytes (the size at which a 16-bit
    // length would wrap). Only reachable with folding 16 and the widest element types.
    let big = E::ELEMENT_BYTES >= 24 && ch.chance("big.openings?", 1, 25);
    let cfg = if big {
        loop {
            let c = FriCfg {
                log_domain: if thorough && ch.chance("big.13?", 1, 3) { 13 } else { 12 },
                blowup: [2usize, 4, 8][ch.index("big.blowup", 3)],
                folding: 16,
                rmax: [7usize, 15, 31, 127, 255][ch.index("big.rmax", 5)],
                num_queries: 255,
            };
            if c.well_formed() && c.layers() > 0 {
                break c;
            }
        }
    } else if large {
        // domains on both sides of the sizes at which the concurrent code splits its work
        // (1024 rows per batch, 1024 leaves per tree)
        let mut c = gen_fri_cfg(ch, if thorough { 14 } else { 13 });
        if c.log_domain < 11 && ch.chance("large.force?", 3, 4) {
            c.log_domain = 11 + ch.index("large.log", 3) as u32;
            if !c.well_formed() {
                c.folding = 2;
            }
            c.num_queries = c.num_queries.min(c.domain() - 1);
        }
        c
    } else {
        gen_fri_cfg(ch, if thorough { 13 } else { 11 })
    };
    let n = cfg.n();
    let domain = cfg.domain();
    let max_degree = n - 1;
    let salt = ch.u64("fn.salt");
    let mut rng = simcore::rng::Xoshiro::from_u64(salt);
    let deg = match ch.weighted("fn.degree", &[3, 2, 3]) {
        0 => n - 1,
        1 => 0,
        _ => ch.index("fn.deg", n),
    };
    // one polynomial in four vanishes at up to 16 points of the domain: exact zeros inside the
    // rows that are committed, folded and opened
    let k = if deg >= 1 && ch.chance("fn.roots?", 1, 4) { 1 + ch.index("fn.nroots", deg.min(16)) } else { 0 };
    let mut c: Vec<E> = (0..=deg - k).map(|_| rand_elem::<E>(&mut rng)).collect();
    if c[deg - k] == E::ZERO {
        c[deg - k] = E::ONE;
    }
    let mut roots: Vec<usize> = vec![];
    if k > 0 {
        roots = add_domain_roots::<B, E>(&mut c, &mut rng, domain, k);
        ctx.probe("polynomial_with_exact_zeros_on_the_domain");
    }
    let f0 = coset_evaluate::<B, E>(&c, domain);
    ctx.event_with("setup", simcore::rng::fnv1a(format!("{:?}{deg}", cfg).as_bytes()), || {
        format!("{:?} ({} layers, remainder size {}), polynomial of degree {deg} (bound {max_degree})", cfg, cfg.layers(), cfg.remainder_size())
    });
    ctx.nontrivial = true;
    if deg == max_degree {
        ctx.probe("degree_exactly_the_bound");
    }
    if deg == 0 {
        ctx.probe("degree_zero");
    }
    if cfg.folding == 16 {
        ctx.probe("folding_16");
    }
    if cfg.remainder_size() == 1 {
        ctx.probe("single_coefficient_remainder");
    }
    if cfg.layers() == 0 {
        ctx.probe("zero_layers");
    }
    let ctxt = || format!("{:?}, degree {deg}", cfg);

    // real prover behind the recording channel
    let mut prover = FriProver::<B, E, SimProverChannel<E, H>, H>::new(cfg.options());
    let mut channel = SimProverChannel::<E, H>::new();
    if let Err(p) = guard(|| prover.build_layers(&mut channel, f0.clone())) {
        ctx.violation(format!("C15/prover-panic {}", p.signature()), format!("FriProver::build_layers panicked at {}:{}: {}; {}", p.file, p.line, p.msg, ctxt()));
        return;
    }
    // per-message invariant: every commitment equals the commitment of the reference
    // (coefficient-domain) fold of the previous layer under the challenge that was handed out
    let reference = {
        let mut evals = f0.clone();
        let mut roots: Vec<H::Digest> = vec![];
        for alpha in channel.alphas.iter() {
            let root = layer_root::<B, E, H>(&evals, cfg.folding);
            roots.push(root);
            evals = ref_fold::<B, E>(&evals, cfg.folding, *alpha);
        }
        let coeffs = if evals.len() == 1 { evals.clone() } else { coset_interpolate::<B, E>(&evals) };
        let size = (evals.len() / cfg.blowup).max(1);
        roots.push(H::hash_elements(&coeffs[..size]));
        roots
    };
    if channel.commitments.len() != reference.len() {
        ctx.violation("C15/number-of-commitments", format!("prover made {} commitments, the schedule has {} layers + remainder; {}", channel.commitments.len(), cfg.layers(), ctxt()));
        return;
    }
    for (i, (a, b)) in channel.commitments.iter().zip(reference.iter()).enumerate() {
        if a != b {
            let what = if i + 1 == reference.len() { "remainder".to_string() } else { format!("layer-{}", if i == 0 { "0" } else { "k" }) };
            ctx.violation(
                format!("C15/folding-identity {what} folding{}", cfg.folding),
                format!("commitment {i} of the prover is not the commitment of the coefficient-domain fold of the previous layer with the challenge it was given; {}", ctxt()),
            );
            return;
        }
    }
    ctx.probe_n("layer_commitments_matched", reference.len() as u64);

    // query phase: raw positions (duplicates and post-folding collisions included)
    let nonce = ch.pick("nonce", 4);
    let mut positions = channel.draw_positions(cfg.num_queries, domain, nonce);
    if big {
        // 255 distinct rows (the most one batch opening can carry), one position in each
        let m = domain / cfg.folding;
        let first = ch.index("big.first_row", m);
        positions = (0..255usize).map(|k| (first + k) % m + (rng.below(cfg.folding as u64) as usize) * m).collect();
        if E::ELEMENT_BYTES * cfg.folding * 255 > 65535 {
            ctx.probe("first_layer_opened_values_exceed_65535_bytes");
        }
    }
    if !big && !roots.is_empty() {
        // the raw positions are the caller's: ask for (some of) the places where the function
        // vanishes, or for their row mates, so that an exact zero sits inside an opened row
        let m = domain / cfg.folding;
        for r in roots.iter().take(1 + ch.index("roots.asked", roots.len().min(4))) {
            positions.push(if ch.chance("roots.mate?", 1, 2) { (*r + m) % domain } else { *r });
        }
        ctx.probe("exact_zero_inside_an_opened_row");
    }
    if ch.chance("dup.positions?", 1, 3) && !positions.is_empty() {
        let k = ch.index("dup.which", positions.len());
        positions.push(positions[k]);
        // and one that collides only after folding
        let m = domain / cfg.folding;
        positions.push((positions[k] + m) % domain);
        ctx.fault("duplicate_and_colliding_positions");
    }
    let proof = match guard(|| prover.build_proof(&positions)) {
        Ok(p) => p,
        Err(p) => {
            ctx.violation(format!("C15/prover-panic {}", p.signature()), format!("FriProver::build_proof panicked at {}:{}: {}; {}", p.file, p.line, p.msg, ctxt()));
            return;
        },
    };
    let claimed: Vec<E> = positions.iter().map(|&p| f0[p]).collect();
    let v = real_verify::<B, E, H>(&cfg, proof.clone(), channel.commitments.clone(), &claimed, &positions, max_degree);
    ctx.event_with("verify", v.accepted() as u64, || v.short());
    if !v.accepted() {
        ctx.violation(format!("C15/honest-proof-rejected {}", v.short()), format!("honest FRI proof rejected: {}; {}", v.short(), ctxt()));
        return;
    }
    // after serialization, by vector and by chunked stream
    let bytes = proof.to_bytes();
    match guard(|| FriProof::read_from_bytes(&bytes)) {
        Ok(Ok(p2)) => {
            if p2 != proof {
                ctx.violation("C15/serialization-roundtrip-differs", ctxt());
                return;
            }
            let v2 = real_verify::<B, E, H>(&cfg, p2, channel.commitments.clone(), &claimed, &positions, max_degree);
            if !v2.accepted() {
                ctx.violation(format!("C15/rejected-after-serialization {}", v2.short()), ctxt());
                return;
            }
        },
        Ok(Err(e)) => {
            ctx.violation(format!("C15/serialized-proof-does-not-parse {}", variant_name(&format!("{:?}", e))), format!("{:?}; {}", e, ctxt()));
            return;
        },
        Err(p) => {
            ctx.violation(format!("C15/parse-panic {}", p.signature()), ctxt());
            return;
        },
    }
    {
        use std::cell::RefCell;
        let style = crate::simio::CHUNK_STYLES[ch.weighted("xport.style", &[1, 2, 2, 3, 3, 3])];
        let k = ch.biased("xport.k", 1, 300, &[2, 3, 7, 8, 9, 255, 256]) as usize;
        let stats = crate::simio::ReadStats::default();
        let world = RefCell::new(crate::simio::World { ch, ctx });
        let parsed = {
            let mut src = crate::simio::SimRead::new(&world, &bytes, style, k, crate::simio::ReadFaults::default(), &stats);
            let mut adapter = ReadAdapter::new(&mut src);
            guard(|| FriProof::read_from(&mut adapter))
        };
        let w = world.into_inner();
        match parsed {
            Ok(Ok(p3)) if p3 == proof => {},
            other => {
                w.ctx.violation("C15/streamed-proof-differs", format!("FriProof read through a chunked ReadAdapter: {:?}; {}", other.map(|r| r.map(|_| "parsed but different")), ctxt()));
                return;
            },
        }
    }

    // reuse of the prover instance for further proofs: the same options, but the domain size (the
    // number of evaluations handed to build_layers) may change from proof to proof
    let mut sizes = vec![cfg.log_domain];
    for delta in [1i32, -1, 2, -2][ch.index("reuse.first", 4)..].iter().take(2) {
        let ld = cfg.log_domain as i32 + delta;
        if ld >= (cfg.blowup.ilog2() + 3) as i32 && ld <= 13 {
            let c2 = FriCfg { log_domain: ld as u32, ..cfg.clone() };
            if c2.well_formed() && c2.num_queries < c2.domain() {
                sizes.insert(0, ld as u32);
            }
        }
    }
    sizes.truncate(2 + ch.index("reuse.count", 2));
    for (round, ld) in sizes.iter().enumerate() {
        let cfg2 = FriCfg { log_domain: *ld, ..cfg.clone() };
        if *ld != cfg.log_domain {
            ctx.fault("prover_reused_with_another_domain_size");
        }
        let (n2, domain2) = (cfg2.n(), cfg2.domain());
        let c2: Vec<E> = (0..n2).map(|_| rand_elem::<E>(&mut rng)).collect();
        let f2 = coset_evaluate::<B, E>(&c2, domain2);
        let mut channel2 = SimProverChannel::<E, H>::new();
        let second = guard(|| {
            prover.build_layers(&mut channel2, f2.clone());
            let pos2 = channel2.draw_positions(cfg2.num_queries, domain2, 1);
            let proof2 = prover.build_proof(&pos2);
            (pos2, proof2)
        });
        let what = format!("reuse #{} of the prover instance with a domain of {} (first proof: {})", round + 1, domain2, domain);
        match second {
            Ok((pos2, proof2)) => {
                let claimed2: Vec<E> = pos2.iter().map(|&p| f2[p]).collect();
                let v3 = real_verify::<B, E, H>(&cfg2, proof2, channel2.commitments.clone(), &claimed2, &pos2, n2 - 1);
                ctx.event_with("verify.reuse", v3.accepted() as u64 ^ (*ld as u64) << 8, || format!("{what}: {}", v3.short()));
                if !v3.accepted() {
                    ctx.violation(format!("C15/reused-prover-proof-rejected {}", v3.short()), format!("{what}; {}", ctxt()));
                    return;
                }
            },
            Err(p) => {
                ctx.violation(format!("C15/reused-prover-panic {}", p.signature()), format!("{what}: {}:{} {}; {}", p.file, p.line, p.msg, ctxt()));
                return;
            },
        }
    }
}

fn layer_root<B: StarkField, E: FieldElement<BaseField = B>, H: ElementHasher<BaseField = B>>(evals: &[E], folding: usize) -> H::Digest {
    fn go<E: FieldElement, H: ElementHasher<BaseField = E::BaseField>, const N: usize>(evals: &[E]) -> H::Digest {
        let t: Vec<[E; N]> = utils::transpose_slice(evals);
        // the documented way: hash each row of N values, Merkle tree over the row hashes
        let hashes: Vec<H::Digest> = t.iter().map(|row| H::hash_elements(row)).collect();
        *crypto::MerkleTree::<H>::new(hashes).expect("harness: tree").root()
    }
    match folding {
        2 => go::<E, H, 2>(evals),
        4 => go::<E, H, 4>(evals),
        8 => go::<E, H, 8>(evals),
        _ => go::<E, H, 16>(evals),
    }
}

fn scenario(which: Which, info: &RunInfo, ch: &mut Chooser, ctx: &mut Ctx) {
    let thorough = info.tier == Tier::Thorough;
    let cfg = gen_cfg(ch, true);
    dispatch(cfg, FriJob { ch, ctx, which, thorough });
}

pub fn spec_c05() -> CheckSpec {
    let arms: Vec<Box<dyn Arm>> = vec![Box::new(FnArm { name: "byzantine-prover", quick: 20_000, thorough: 500_000, f: |i: &RunInfo, c: &mut Chooser, x: &mut Ctx| scenario(Which::Byzantine, i, c, x) })];
    CheckSpec {
        id: "C05",
        level: "exploration",
        build: "serial",
        rule: "one run = one FRI configuration (domain 2^3..2^12, blowup 2..128, folding 2/4/8/16, remainder max degree 0..255, 1..64 raw query positions incl. duplicates, base / quadratic / cubic elements of three fields, six hashers) x one function (uniformly random; polynomial of degree bound+1 .. domain-1; degree exactly bound+1; low-degree polynomial corrupted on a chosen fraction; low-degree control) x one prover strategy (honest folding; remainder chosen after the positions are known; a tampered value in a layer before it is committed; folding with a wrong challenge; swapped commitments; over-long remainder; wrong remainder commitment). The harness-side prover commits honestly to whatever it folds and builds a FriProof in wire form; the real FriVerifier's verdict is compared with a spec-level reference verifier that sees the full committed data. Non-trivial = a Byzantine action fired (all runs); distinct = distinct event-log digests.".into(),
        interleaving_measure: "distinct (configuration, function, strategy, verdicts) histories".into(),
        real: vec!["fri::FriVerifier, DefaultVerifierChannel, FriProof parsing, fold_positions, apply_drp, MerkleTree batch openings (all real)"],
        stub: vec!["the prover (harness-side Byzantine prover assembled from public pieces)", "the reference FRI verifier (oracle)"],
        assumptions: vec![
            "reference verifier = the property's three obligations (degree schedule, fold consistency at every queried position under the verifier's own challenges, remainder bounded + consistent + equal to what was committed before the positions were drawn)",
            "coincidences of probability <= 2^-60 are ignored",
        ],
        arms,
    }
}

pub fn spec_c15() -> CheckSpec {
    let arms: Vec<Box<dyn Arm>> = vec![
        Box::new(FnArm { name: "honest-channel", quick: 20_000, thorough: 400_000, f: |i: &RunInfo, c: &mut Chooser, x: &mut Ctx| scenario(Which::Honest, i, c, x) }),
        Box::new(simcore::iso::IsoArm {
            check_id: "C15",
            inner: Box::new(FnArm { name: "honest-channel-scheduled", quick: 1_200, thorough: 30_000, f: |i: &RunInfo, c: &mut Chooser, x: &mut Ctx| scenario(Which::HonestScheduled, i, c, x) }),
            timeout_s: 120,
            exe_env: Some("WFSIM_CONC"),
            alias: None,
        }),
    ];
    CheckSpec {
        id: "C15",
        level: "exploration",
        build: "serial (+ concurrent build under SimRayon for one arm)",
        rule: "one run = one FRI configuration (as C05, domain up to 2^13) x one polynomial of degree 0 / exactly the bound / in between; the REAL FriProver runs behind a recording channel: every commitment it makes is compared, as the run proceeds, with the commitment of the coefficient-domain reference fold of the previous layer under the challenge it was handed (the folding identity as a per-message invariant), likewise the remainder commitment; then raw query positions with duplicates and post-folding collisions, proof accepted by the real verifier, also after the byte round trip and after a chunked ReadAdapter transport; then the same prover instance is reused for further proofs. Arm honest-channel-scheduled: the same scenario in the concurrent build inside an isolated worker, domains 2^11..2^14, under a simulator-chosen pool size (1..64) and task schedule (SimRayon): the folding identity, acceptance and the round trips must hold for the concurrently computed layers as well. Every run is non-trivial; distinct = distinct event-log digests.".into(),
        interleaving_measure: "distinct (configuration, polynomial, positions, transport chunking) histories".into(),
        real: vec!["fri::FriProver (build_layers, build_proof, reuse), fri::folding::apply_drp / fold_positions, FriVerifier, FriProof (de)serialization, utils::ReadAdapter"],
        stub: vec!["the prover channel (records commitments and challenges)", "the reference fold (math::fft interpolation + coefficient recombination)"],
        assumptions: vec![
            "degree bounds of the form 2^k - 1 (the only ones the STARK layer produces); other bounds appear only in C05",
            "math::fft is trusted for the reference fold (its own correctness is property C09, not applicable to this technique)",
        ],
        arms,
    }
}
