//! C10 — Merkle openings: the opening is a message. Fault-free arm: every non-empty position
//! set of trees up to 16 leaves (single / batch openings, into_paths, from_paths, permuted
//! position lists). Fault arm: the opening or the position list is damaged in transit (claimed
//! leaf / node flipped, nodes dropped / duplicated / moved, node vectors dropped / added, depth
//! changed, positions changed / duplicated / out of range / permuted); accepted => the claimed
//! leaves at the queried in-range positions are the committed ones; never a panic.

use crypto::{BatchMerkleProof, ElementHasher, Hasher, MerkleTree};
use simcore::iso::IsoArm;
use simcore::{guard, Arm, CheckSpec, Chooser, Ctx, FnArm, RunInfo, Tier};

use crate::dispatch::*;
use crate::proto::SimField;

fn leaves_for<H: Hasher>(n: usize, salt: u64) -> Vec<H::Digest> {
    (0..n).map(|i| H::hash(&[(i as u64 ^ salt).to_le_bytes(), (salt.rotate_left(17)).to_le_bytes()].concat())).collect()
}

fn clone_bp<H: Hasher>(p: &BatchMerkleProof<H>) -> BatchMerkleProof<H> {
    BatchMerkleProof { leaves: p.leaves.clone(), nodes: p.nodes.clone(), depth: p.depth }
}

fn eq_bp<H: Hasher>(a: &BatchMerkleProof<H>, b: &BatchMerkleProof<H>) -> bool {
    a.leaves == b.leaves && a.nodes == b.nodes && a.depth == b.depth
}

/// the digest with ONE bit of its wire form flipped (any byte, any bit); None when the result is
/// not a valid encoding (algebraic digests whose element would leave the field)
fn flip_one_bit<H: Hasher>(d: &H::Digest, ch: &mut Chooser) -> Option<H::Digest> {
    let mut b = utils::Serializable::to_bytes(d);
    let i = ch.index("f.byte", b.len());
    b[i] ^= 1 << ch.index("f.bit", 8);
    <H::Digest as utils::Deserializable>::read_from_bytes(&b).ok().filter(|x| x != d)
}

fn other_digest<H: Hasher>(salt: u64) -> H::Digest {
    H::hash(&salt.to_le_bytes())
}

// FAULT-FREE ARM: ALL SUBSETS
// ------------------------------------------------------------------------------------------------

const PER_HASHER: u64 = 3 + 15 + 255 + 65535;

struct SubsetJob<'a> {
    ch: &'a mut Chooser,
    ctx: &'a mut Ctx,
    depth: u32,
    mask: u32,
    cfg: Cfg,
}

impl<'a> Job for SubsetJob<'a> {
    type Out = ();
    fn run<B: SimField, H: ElementHasher<BaseField = B> + Send + Sync + 'static>(self) {
        subsets::<H>(self.ch, self.ctx, self.depth, self.mask, self.cfg)
    }
}

fn subsets<H: Hasher>(ch: &mut Chooser, ctx: &mut Ctx, depth: u32, mask: u32, cfg: Cfg) {
    let n = 1usize << depth;
    let leaves = leaves_for::<H>(n, 0x5EED ^ mask as u64);
    let tree = MerkleTree::<H>::new(leaves.clone()).expect("harness: tree");
    let root = *tree.root();
    let mut positions: Vec<usize> = (0..n).filter(|i| mask >> i & 1 == 1).collect();
    let permuted = positions.len() > 1 && ch.chance("perm?", 1, 2);
    if permuted {
        let p = ch.permutation("perm", positions.len());
        positions = p.iter().map(|&i| positions[i]).collect();
        ctx.fault("position_list_permuted");
    }
    ctx.nontrivial = true;
    ctx.event("subset", depth as u64, mask as u64);
    let ctxt = |what: &str| format!("{what}: tree of {n} leaves, hasher {:?}, positions {:?}", cfg.1, positions);
    let r = guard(|| -> Result<(), String> {
        let bp = tree.prove_batch(&positions).map_err(|e| format!("prove_batch: {e}"))?;
        MerkleTree::<H>::verify_batch(&root, &positions, &bp).map_err(|e| format!("verify_batch rejects the tree's own opening: {e}"))?;
        if bp.get_root(&positions).map_err(|e| format!("get_root: {e}"))? != root {
            return Err("get_root differs from the root".into());
        }
        if bp.leaves.len() != positions.len() || bp.leaves.iter().zip(positions.iter()).any(|(l, p)| *l != leaves[*p]) {
            return Err("claimed leaves are not the committed leaves in the order of the position list".into());
        }
        let paths = clone_bp(&bp).into_paths(&positions).map_err(|e| format!("into_paths: {e}"))?;
        if paths.len() != positions.len() {
            return Err("into_paths returns a different number of paths".into());
        }
        for (k, p) in positions.iter().enumerate() {
            let single = tree.prove(*p).map_err(|e| format!("prove: {e}"))?;
            if paths[k] != single {
                return Err(format!("into_paths[{k}] is not the single opening of position {p}"));
            }
            MerkleTree::<H>::verify(root, *p, &single).map_err(|e| format!("verify rejects the single opening of {p}: {e}"))?;
        }
        let back = BatchMerkleProof::<H>::from_paths(&paths, &positions);
        // from_paths sorts the positions: compare with the opening for the sorted list
        let mut sorted = positions.clone();
        sorted.sort_unstable();
        let bp_sorted = tree.prove_batch(&sorted).map_err(|e| format!("prove_batch(sorted): {e}"))?;
        if !eq_bp(&back, &bp_sorted) {
            return Err("from_paths(into_paths(opening)) is not the batch opening".into());
        }
        Ok(())
    });
    match r {
        Ok(Ok(())) => {},
        Ok(Err(e)) => {
            let c: String = e.split(':').next().unwrap_or("").chars().map(|c| if c.is_ascii_digit() { '#' } else { c }).collect::<String>().replace("##", "#");
            ctx.violation(format!("C10/honest-opening {}{}", c, if permuted { " (permuted positions)" } else { "" }), ctxt(&e));
        },
        Err(p) => ctx.violation(format!("C10/honest-opening-panic {}", p.signature()), ctxt(&format!("{}:{} {}", p.file, p.line, p.msg))),
    }
}

fn subsets_scenario(info: &RunInfo, ch: &mut Chooser, ctx: &mut Ctx) {
    let hashers: [usize; 6] = [0, 10, 3, 6, 9, 11]; // indexes into CONFIGS: one per hasher
    let h = (info.run / PER_HASHER) as usize % hashers.len();
    let mut r = info.run % PER_HASHER;
    let mut depth = 1u32;
    loop {
        let cnt = (1u64 << (1u64 << depth)) - 1;
        if r < cnt {
            break;
        }
        r -= cnt;
        depth += 1;
    }
    let mask = (r + 1) as u32;
    let cfg = CONFIGS[hashers[h]];
    dispatch(cfg, SubsetJob { ch, ctx, depth, mask, cfg });
}

struct SubsetArm;
impl Arm for SubsetArm {
    fn name(&self) -> String {
        "all-position-sets".into()
    }
    fn runs(&self, tier: Tier, _seed: u64) -> u64 {
        match tier {
            Tier::Quick => 2 * PER_HASHER,
            Tier::Thorough => 6 * PER_HASHER,
        }
    }
    fn exhaustive(&self) -> bool {
        true
    }
    fn run(&self, info: &RunInfo, ch: &mut Chooser, ctx: &mut Ctx) {
        subsets_scenario(info, ch, ctx)
    }
}

// FAULT ARM
// ------------------------------------------------------------------------------------------------

struct FaultJob<'a> {
    ch: &'a mut Chooser,
    ctx: &'a mut Ctx,
    cfg: Cfg,
}

impl<'a> Job for FaultJob<'a> {
    type Out = ();
    fn run<B: SimField, H: ElementHasher<BaseField = B> + Send + Sync + 'static>(self) {
        faulted::<H>(self.ch, self.ctx, self.cfg)
    }
}

fn faulted<H: Hasher>(ch: &mut Chooser, ctx: &mut Ctx, cfg: Cfg) {
    let depth = 1 + ch.weighted("depth", &[3, 4, 4, 3, 2, 2, 1, 1, 1, 1]) as u32;
    let n = 1usize << depth;
    let salt = ch.u64("salt");
    let leaves = leaves_for::<H>(n, salt);
    let tree = MerkleTree::<H>::new(leaves.clone()).expect("harness: tree");
    let root = *tree.root();
    // positions with adjacency patterns
    let k = ch.biased("npos", 1, n.min(255) as u64, &[1, 2, 3, 4, (n / 2) as u64]) as usize;
    let mut positions: Vec<usize> = vec![];
    let style = ch.weighted("pos.style", &[4, 2, 2, 1]);
    while positions.len() < k {
        let p = match style {
            0 => ch.index("pos", n),
            1 => {
                // siblings / cousins of what is already there
                if let Some(&q) = positions.last() {
                    [q ^ 1, q ^ 2, q ^ 3, (q + 1) % n][ch.index("pos.rel", 4)] % n
                } else {
                    ch.index("pos", n)
                }
            },
            2 => ch.index("pos", n) & !1, // all-left
            _ => n - 1 - ch.index("pos", n.min(4)), // right edge
        };
        if !positions.contains(&p) {
            positions.push(p);
        } else if style != 0 {
            let p = ch.index("pos.fill", n);
            if !positions.contains(&p) {
                positions.push(p);
            }
        }
    }
    if ch.chance("sorted?", 2, 3) {
        positions.sort_unstable();
    }
    let honest = match tree.prove_batch(&positions) {
        Ok(p) => p,
        Err(e) => {
            ctx.violation("C10/honest-opening prove_batch", format!("prove_batch fails for distinct in-range positions {:?}: {e}", positions));
            return;
        },
    };
    let mut proof = clone_bp(&honest);
    let mut idx = positions.clone();
    let kind = ch.weighted("fault", &[4, 4, 2, 2, 2, 2, 2, 3, 3, 3, 3, 1, 2, 2, 4, 0, 3, 3]);
    let what: String = match kind {
        16 => {
            // many surplus digests at the end of one node vector: 1, 2 and both sides of the
            // counts at which a one-byte counter wraps
            let k = ch.index("f.vec", proof.nodes.len().max(1));
            let m = [1usize, 2, 255, 256, 257, 512, 768][ch.index("f.many", 7)];
            if proof.nodes.is_empty() {
                proof.nodes.push(vec![]);
            }
            for i in 0..m {
                proof.nodes[k].push(other_digest::<H>(salt ^ (1000 + i as u64)));
            }
            ctx.fault("surplus_nodes_appended_in_bulk");
            format!("{m} surplus nodes appended to node vector {k}")
        },
        17 => {
            // surplus claimed leaves without positions of their own: an arbitrary digest, a
            // repetition of a claimed leaf, or another leaf of the tree
            let m = 1 + ch.index("f.nleaves", 3);
            for i in 0..m {
                let l = match ch.index("f.leafkind", 3) {
                    0 => other_digest::<H>(salt ^ (2000 + i as u64)),
                    1 => proof.leaves[ch.index("f.rep", proof.leaves.len())],
                    _ => leaves[ch.index("f.treeleaf", n)],
                };
                proof.leaves.push(l);
            }
            ctx.fault("surplus_claimed_leaves_appended");
            format!("{m} surplus claimed leaves appended")
        },
        0 => {
            let i = ch.index("f.leaf", proof.leaves.len());
            // a single flipped bit (every byte of the digest must be bound), or another digest
            match if ch.chance("f.onebit?", 1, 2) { flip_one_bit::<H>(&proof.leaves[i], ch) } else { None } {
                Some(d) => {
                    proof.leaves[i] = d;
                    ctx.fault("claimed_leaf_one_bit_flipped");
                    format!("one bit of claimed leaf {i} flipped")
                },
                None => {
                    proof.leaves[i] = other_digest::<H>(salt ^ 1);
                    ctx.fault("claimed_leaf_flipped");
                    format!("claimed leaf {i} replaced")
                },
            }
        },
        1 => {
            let vs: Vec<usize> = (0..proof.nodes.len()).filter(|v| !proof.nodes[*v].is_empty()).collect();
            if vs.is_empty() {
                ctx.skipped = Some("opening_has_no_nodes");
                return;
            }
            let v = vs[ch.index("f.vec", vs.len())];
            let j = ch.index("f.node", proof.nodes[v].len());
            match if ch.chance("f.onebit?", 1, 2) { flip_one_bit::<H>(&proof.nodes[v][j], ch) } else { None } {
                Some(d) => {
                    proof.nodes[v][j] = d;
                    ctx.fault("node_one_bit_flipped");
                    format!("one bit of node {j} of vector {v} flipped")
                },
                None => {
                    proof.nodes[v][j] = other_digest::<H>(salt ^ 2);
                    ctx.fault("node_flipped");
                    format!("node {j} of vector {v} replaced")
                },
            }
        },
        2 | 3 | 4 => {
            let vs: Vec<usize> = (0..proof.nodes.len()).filter(|v| !proof.nodes[*v].is_empty()).collect();
            if vs.is_empty() {
                ctx.skipped = Some("opening_has_no_nodes");
                return;
            }
            let v = vs[ch.index("f.vec", vs.len())];
            let j = ch.index("f.node", proof.nodes[v].len());
            match kind {
                2 => {
                    proof.nodes[v].remove(j);
                    ctx.fault("node_dropped");
                    format!("node {j} of vector {v} dropped")
                },
                3 => {
                    let d = proof.nodes[v][j];
                    let at = ch.index("f.at", proof.nodes[v].len() + 1);
                    proof.nodes[v].insert(at, d);
                    ctx.fault("node_duplicated");
                    format!("node {j} of vector {v} duplicated at {at}")
                },
                _ => {
                    let d = proof.nodes[v].remove(j);
                    let w = ch.index("f.vec2", proof.nodes.len());
                    proof.nodes[w].push(d);
                    if w == v && j == proof.nodes[v].len() - 1 {
                        ctx.skipped = Some("fault_was_identity");
                        return;
                    }
                    ctx.fault("node_moved_between_vectors");
                    format!("node {j} moved from vector {v} to the end of vector {w}")
                },
            }
        },
        5 => {
            let v = ch.index("f.vec", proof.nodes.len());
            proof.nodes.remove(v);
            ctx.fault("node_vector_dropped");
            format!("node vector {v} dropped")
        },
        6 => {
            let v = ch.index("f.vec", proof.nodes.len() + 1);
            let extra = if ch.chance("f.nonempty?", 1, 2) { vec![other_digest::<H>(salt ^ 3)] } else { vec![] };
            proof.nodes.insert(v, extra);
            ctx.fault("node_vector_added");
            format!("extra node vector inserted at {v}")
        },
        7 => {
            let d = [0u8, 1, 63, 64, 65, 255, (depth as u8).wrapping_add(1), (depth as u8).wrapping_sub(1)][ch.index("f.depth", 8)];
            if d == depth as u8 {
                ctx.skipped = Some("fault_was_identity");
                return;
            }
            proof.depth = d;
            ctx.fault("depth_changed");
            format!("depth {} -> {d}", depth)
        },
        8 => {
            let i = ch.index("f.pos", idx.len());
            let mut p = ch.index("f.newpos", n);
            if idx.contains(&p) {
                p = (p + 1) % n;
            }
            if idx.contains(&p) {
                ctx.skipped = Some("no_free_position");
                return;
            }
            idx[i] = p;
            ctx.fault("position_changed");
            format!("position {i} changed to {p}")
        },
        9 => {
            let i = ch.index("f.pos", idx.len());
            let at = ch.index("f.at", idx.len() + 1);
            let p = idx[i];
            idx.insert(at, p);
            if ch.chance("f.dupleaf?", 1, 2) {
                let l = proof.leaves[i];
                proof.leaves.insert(at.min(proof.leaves.len()), l);
            }
            ctx.fault("position_duplicated");
            format!("position {p} duplicated at {at}")
        },
        10 => {
            let i = ch.index("f.pos", idx.len());
            idx[i] = [n, n + 1, 2 * n, usize::MAX, usize::MAX / 2][ch.index("f.oor", 5)];
            ctx.fault("position_out_of_range");
            format!("position {i} set out of range ({})", idx[i])
        },
        11 => {
            idx.clear();
            ctx.fault("empty_position_list");
            "empty position list".into()
        },
        12 => {
            if idx.len() < 2 {
                ctx.skipped = Some("single_position");
                return;
            }
            let p = ch.permutation("f.perm", idx.len());
            let new: Vec<usize> = p.iter().map(|&i| idx[i]).collect();
            if new == idx {
                ctx.skipped = Some("fault_was_identity");
                return;
            }
            idx = new;
            ctx.fault("positions_permuted_without_leaves");
            "positions permuted, leaves left in place".into()
        },
        14 => {
            // coordinated: one more queried position with an ARBITRARY claimed leaf; the node
            // vectors stay those of the honest opening (or, half the time, are those of the
            // honest opening of the enlarged set, so that only the claimed leaf is wrong)
            let free: Vec<usize> = (0..n).filter(|p| !idx.contains(p)).collect();
            if free.is_empty() {
                ctx.skipped = Some("no_free_position");
                return;
            }
            let q = free[ch.index("f.newq", free.len())];
            let at = ch.index("f.at", idx.len() + 1);
            idx.insert(at, q);
            let with_nodes = ch.chance("f.honestnodes?", 1, 2);
            if with_nodes {
                match tree.prove_batch(&idx) {
                    Ok(p) => proof = p,
                    Err(_) => return,
                }
                proof.leaves[at] = other_digest::<H>(salt ^ 5);
            } else {
                proof.leaves.insert(at, other_digest::<H>(salt ^ 5));
            }
            ctx.fault("position_added_with_arbitrary_leaf");
            format!("position {q} added at {at} with an arbitrary claimed leaf ({})", if with_nodes { "nodes of the enlarged honest opening" } else { "nodes untouched" })
        },
        _ => {
            if proof.leaves.len() < 2 {
                ctx.skipped = Some("single_position");
                return;
            }
            let i = ch.index("f.i", proof.leaves.len());
            let j = (i + 1 + ch.index("f.j", proof.leaves.len() - 1)) % proof.leaves.len();
            proof.leaves.swap(i, j);
            ctx.fault("claimed_leaves_swapped");
            format!("claimed leaves {i} and {j} swapped")
        },
    };
    let res = guard(|| MerkleTree::<H>::verify_batch(&root, &idx, &proof));
    let res2 = guard(|| clone_bp(&proof).into_paths(&idx));
    ctx.event_with("verify", simcore::rng::fnv1a(format!("{what}{:?}", res.as_ref().map(|r| r.is_ok())).as_bytes()), || {
        format!("{n} leaves, {:?}, positions {:?}: {what} -> verify_batch {:?}, into_paths ok: {:?}", cfg.1, &idx[..idx.len().min(8)], res.as_ref().map(|r| r.as_ref().map_err(|e| e.to_string())), res2.as_ref().map(|r| r.is_ok()))
    });
    let fkind = what.split(|c: char| c.is_ascii_digit()).next().unwrap_or("").trim().to_string();
    match res {
        Err(p) => ctx.violation(format!("C10/verify-batch-panic {}", p.signature()), format!("{what}: {}:{} {}", p.file, p.line, p.msg)),
        Ok(Ok(())) => {
            // accepted: the claimed leaves at the queried in-range positions must be the committed ones
            let sound = proof.leaves.len() == idx.len() && idx.iter().zip(proof.leaves.iter()).all(|(p, l)| *p >= n || leaves[*p] == *l);
            let shape_changed = proof.nodes != honest.nodes || proof.depth != honest.depth || proof.leaves.len() != honest.leaves.len();
            if !sound {
                ctx.violation(
                    format!("C10/wrong-leaf-accepted {fkind}"),
                    format!("verify_batch accepted an opening whose claimed leaves are not the committed ones: {what}; {n} leaves, {:?}, positions {:?}", cfg.1, idx),
                );
            } else if shape_changed {
                ctx.violation(
                    format!("C10/malformed-opening-accepted {fkind}"),
                    format!("verify_batch accepted an opening whose shape was changed: {what}; {n} leaves, {:?}, positions {:?}", cfg.1, idx),
                );
            }
        },
        Ok(Err(_)) => {},
    }
    if let Err(p) = res2 {
        ctx.violation(format!("C10/into-paths-panic {}", p.signature()), format!("{what}: {}:{} {}", p.file, p.line, p.msg));
    }
    // the prover side must refuse malformed position lists without panicking
    if kind >= 9 && kind <= 11 {
        match guard(|| tree.prove_batch(&idx)) {
            Err(p) => ctx.violation(format!("C10/prove-batch-panic {}", p.signature()), format!("prove_batch({:?}) panicked: {}:{} {}", idx, p.file, p.line, p.msg)),
            Ok(Ok(_)) => ctx.violation(format!("C10/prove-batch-accepts-malformed-positions {fkind}"), format!("prove_batch({:?}) succeeded on a tree of {n} leaves", idx)),
            Ok(Err(_)) => {},
        }
    }
}

fn fault_scenario(_info: &RunInfo, ch: &mut Chooser, ctx: &mut Ctx) {
    let hashers: [usize; 6] = [0, 10, 3, 6, 9, 11];
    let cfg = CONFIGS[hashers[ch.weighted("hasher", &[4, 1, 2, 2, 1, 1])]];
    dispatch(cfg, FaultJob { ch, ctx, cfg });
}


// SINGLE-PATH FAULT ARM
// ------------------------------------------------------------------------------------------------
// A single opening (`prove` -> `verify`) is a message too: leaf, then the authentication nodes.

struct PathJob<'a> {
    ch: &'a mut Chooser,
    ctx: &'a mut Ctx,
    cfg: Cfg,
}

impl<'a> Job for PathJob<'a> {
    type Out = ();
    fn run<B: SimField, H: ElementHasher<BaseField = B> + Send + Sync + 'static>(self) {
        faulted_path::<H>(self.ch, self.ctx, self.cfg)
    }
}

fn faulted_path<H: Hasher>(ch: &mut Chooser, ctx: &mut Ctx, cfg: Cfg) {
    let depth = 1 + ch.weighted("depth", &[4, 4, 4, 3, 2, 2, 1, 1, 1, 1]) as u32;
    let n = 1usize << depth;
    let salt = ch.u64("salt");
    let leaves = leaves_for::<H>(n, salt);
    let tree = MerkleTree::<H>::new(leaves.clone()).expect("harness: tree");
    let root = *tree.root();
    let pos = match ch.weighted("pos.style", &[4, 1, 1]) {
        0 => ch.index("pos", n),
        1 => 0,
        _ => n - 1,
    };
    let honest = match guard(|| tree.prove(pos)) {
        Ok(Ok(p)) => p,
        Ok(Err(e)) => {
            ctx.violation("C10/single/honest-opening prove", format!("prove({pos}) fails on a tree of {n} leaves: {e}"));
            return;
        },
        Err(p) => {
            ctx.violation(format!("C10/single/prove-panic {}", p.signature()), format!("prove({pos}) on {n} leaves: {}:{} {}", p.file, p.line, p.msg));
            return;
        },
    };
    let mut path = honest.clone();
    let mut index = pos;
    let kind = ch.weighted("fault", &[4, 4, 2, 2, 2, 3, 2, 2, 3, 3, 2]);
    let what: String = match kind {
        0 => {
            match flip_one_bit::<H>(&path[0], ch) {
                Some(d) => path[0] = d,
                None => path[0] = other_digest::<H>(salt ^ 1),
            }
            ctx.fault("single_path_leaf_changed");
            "leaf changed".into()
        },
        1 => {
            let k = 1 + ch.index("node", path.len() - 1);
            match flip_one_bit::<H>(&path[k], ch) {
                Some(d) => path[k] = d,
                None => path[k] = other_digest::<H>(salt ^ 2),
            }
            ctx.fault("single_path_node_changed");
            "node changed".into()
        },
        2 => {
            path.pop();
            ctx.fault("single_path_last_node_dropped");
            "last node dropped".into()
        },
        3 => {
            path.remove(1.min(path.len() - 1));
            ctx.fault("single_path_first_node_dropped");
            "first node dropped".into()
        },
        4 => {
            let l = ch.index("trunc", 2);
            path.truncate(l);
            ctx.fault("single_path_truncated_to_0_or_1");
            format!("path truncated to {l} digests")
        },
        5 => {
            let extra = [1usize, 2, 63 - depth as usize, 64 - depth as usize, 65 - depth as usize, 70][ch.index("extra", 6)];
            for i in 0..extra {
                path.push(other_digest::<H>(salt ^ (100 + i as u64)));
            }
            ctx.fault("single_path_surplus_nodes");
            format!("{extra} surplus nodes appended")
        },
        6 => {
            if path.len() >= 3 {
                let k = 1 + ch.index("swap", path.len() - 2);
                path.swap(k, k + 1);
            } else {
                path.swap(0, 1);
            }
            ctx.fault("single_path_nodes_swapped");
            "two neighbouring digests swapped".into()
        },
        7 => {
            index = (pos + 1 + ch.index("other", n - 1)) % n;
            ctx.fault("single_path_other_in_range_position");
            "another in-range position".into()
        },
        8 => {
            // positions that agree with the honest one in their low `depth` bits
            index = [pos + n, pos + 2 * n, pos + (n << 7), pos | (1usize << 40), pos | (1usize << 63)][ch.index("alias", 5)];
            ctx.fault("single_path_out_of_range_position_same_low_bits");
            "out-of-range position with the same low bits".into()
        },
        9 => {
            index = [n, n + 1, usize::MAX, usize::MAX - 1, usize::MAX / 2 + 1, usize::MAX - n + 1][ch.index("oor", 6)];
            ctx.fault("single_path_out_of_range_position");
            "out-of-range position".into()
        },
        _ => {
            path = vec![path[0]; path.len()];
            ctx.fault("single_path_all_digests_equal");
            "every digest replaced by the leaf".into()
        },
    };
    let res = guard(|| MerkleTree::<H>::verify(root, index, &path));
    ctx.event_with("verify", simcore::rng::fnv1a(format!("{what}{n}/{pos}/{index}/{salt}{:?}", res.as_ref().map(|r| r.is_ok())).as_bytes()), || {
        format!("{n} leaves, {:?}, position {pos} -> {index}: {what} -> verify {:?}", cfg.1, res.as_ref().map(|r| r.as_ref().map_err(|e| e.to_string())))
    });
    let fkind = what.split(|c: char| c.is_ascii_digit()).next().unwrap_or("").trim().to_string();
    match res {
        Err(p) => ctx.violation(format!("C10/single/verify-panic {}", p.signature()), format!("{what}; {n} leaves, {:?}, position {index}, {} digests: {}:{} {}", cfg.1, path.len(), p.file, p.line, p.msg)),
        Ok(Ok(())) => ctx.violation(
            format!("C10/single/faulted-opening-accepted {fkind}"),
            format!("verify accepted a single opening after: {what}; {n} leaves, {:?}, honest position {pos}, position given {index}, {} digests", cfg.1, path.len()),
        ),
        Ok(Err(_)) => {},
    }
}

fn path_scenario(_info: &RunInfo, ch: &mut Chooser, ctx: &mut Ctx) {
    let hashers: [usize; 6] = [0, 10, 3, 6, 9, 11];
    let cfg = CONFIGS[hashers[ch.weighted("hasher", &[4, 1, 2, 2, 1, 1])]];
    dispatch(cfg, PathJob { ch, ctx, cfg });
}

// SCHEDULED-CONSTRUCTION ARM (concurrent build under SimRayon, inside an isolated worker)
// ------------------------------------------------------------------------------------------------
// Trees above 1024 leaves are built by crypto::merkle::concurrent when the `concurrent` feature is
// on; the openings of such a tree must verify against its root exactly like those of a serially
// built one. The simulator chooses the pool size and the task schedule.

struct SchedJob<'a> {
    ch: &'a mut Chooser,
    ctx: &'a mut Ctx,
    cfg: Cfg,
}

impl<'a> Job for SchedJob<'a> {
    type Out = ();
    fn run<B: SimField, H: ElementHasher<BaseField = B> + Send + Sync + 'static>(self) {
        scheduled::<H>(self.ch, self.ctx, self.cfg)
    }
}

/// the root by the definition: pairwise merges, level by level
fn naive_root<H: Hasher>(leaves: &[H::Digest]) -> H::Digest {
    let mut level: Vec<H::Digest> = leaves.to_vec();
    while level.len() > 1 {
        level = level.chunks(2).map(|p| H::merge(&[p[0], p[1]])).collect();
    }
    level[0]
}

#[cfg(not(feature = "concurrent"))]
fn scheduled<H: Hasher>(_ch: &mut Chooser, ctx: &mut Ctx, _cfg: Cfg) {
    ctx.skipped = Some("needs_the_concurrent_build");
}

#[cfg(feature = "concurrent")]
fn scheduled<H: Hasher>(ch: &mut Chooser, ctx: &mut Ctx, cfg: Cfg) {
    let log_n = 10 + ch.weighted("sched.logn", &[1, 4, 3, 1]) as u32; // 1024 (serial path) .. 8192
    let n = 1usize << log_n;
    let salt = ch.u64("sched.salt");
    let leaves = leaves_for::<H>(n, salt);
    let pool = if ch.chance("pool.any?", 1, 3) { 1 + ch.index("pool.size", 64) } else { crate::c14::POOLS[ch.index("pool.pick", crate::c14::POOLS.len())] };
    let k = ch.biased("sched.k", 1, 64, &[1, 2, 3, 16]) as usize;
    let style = ch.index("sched.posstyle", 3);
    let mut positions: Vec<usize> = vec![];
    while positions.len() < k {
        let p = match style {
            0 => ch.index("sched.pos", n),
            1 => (ch.index("sched.base", n / 64) * 64 + ch.index("sched.off", 4)) % n, // clustered
            _ => n - 1 - ch.index("sched.tail", 64.min(n)),                             // right edge
        };
        if !positions.contains(&p) {
            positions.push(p);
        }
    }
    ctx.event("sched", n as u64, pool as u64);
    ctx.nontrivial = true;
    if !pool.is_power_of_two() {
        ctx.fault("pool_size_not_power_of_two");
    }
    if pool > 16 {
        ctx.fault("pool_larger_than_16");
    }
    let built = {
        let mut picker = |site: &'static str, m: u64| ch.pick(site, m);
        rayon::sim::with_schedule(pool, &mut picker, || guard(|| MerkleTree::<H>::new(leaves.clone())))
    };
    let st = rayon::sim::stats();
    ctx.probe_n("tasks", st.tasks);
    ctx.probe_n("reordered_tasks", st.reorders);
    if st.reorders > 0 {
        ctx.fault("schedule_reordered_tasks");
    }
    ctx.mix(salt ^ st.tasks.rotate_left(20) ^ st.reorders.rotate_left(40) ^ simcore::rng::fnv1a(format!("{:?}", positions).as_bytes()));
    let ctxt = |what: &str| format!("{what}: tree of {n} leaves built on a pool of {pool}, hasher {:?}, positions {:?}", cfg.1, &positions[..positions.len().min(8)]);
    let tree = match built {
        Ok(Ok(t)) => t,
        Ok(Err(e)) => {
            ctx.violation("C10/scheduled/tree-construction-fails", ctxt(&format!("{e}")));
            return;
        },
        Err(p) => {
            ctx.violation(format!("C10/scheduled/tree-construction-panic {}", p.signature()), ctxt(&format!("{}:{}: {}", p.file, p.line, p.msg)));
            return;
        },
    };
    let root = *tree.root();
    if root != naive_root::<H>(&leaves) {
        ctx.violation("C10/scheduled/root-is-not-the-root-of-the-leaves", ctxt("the root of the concurrently built tree differs from the level-by-level merge of its leaves"));
        return;
    }
    let r = guard(|| -> Result<(), String> {
        let bp = tree.prove_batch(&positions).map_err(|e| format!("prove_batch: {e}"))?;
        MerkleTree::<H>::verify_batch(&root, &positions, &bp).map_err(|e| format!("verify_batch rejects the tree's own opening: {e}"))?;
        for p in positions.iter().take(4) {
            let single = tree.prove(*p).map_err(|e| format!("prove: {e}"))?;
            MerkleTree::<H>::verify(root, *p, &single).map_err(|e| format!("verify rejects the single opening of {p}: {e}"))?;
            if single[0] != leaves[*p] {
                return Err("single opening does not start with the committed leaf".into());
            }
        }
        Ok(())
    });
    match r {
        Ok(Ok(())) => {},
        Ok(Err(e)) => {
            let c: String = e.split(':').next().unwrap_or("").chars().map(|c| if c.is_ascii_digit() { '#' } else { c }).collect::<String>().replace("##", "#");
            ctx.violation(format!("C10/scheduled/honest-opening {c}"), ctxt(&e));
        },
        Err(p) => ctx.violation(format!("C10/scheduled/opening-panic {}", p.signature()), ctxt(&format!("{}:{}: {}", p.file, p.line, p.msg))),
    }
}

fn sched_scenario(_info: &RunInfo, ch: &mut Chooser, ctx: &mut Ctx) {
    let hashers: [usize; 6] = [0, 10, 3, 6, 9, 11];
    let cfg = CONFIGS[hashers[ch.weighted("hasher", &[5, 1, 2, 1, 1, 1])]];
    dispatch(cfg, SchedJob { ch, ctx, cfg });
}

pub fn spec() -> CheckSpec {
    let arms: Vec<Box<dyn Arm>> = vec![
        Box::new(SubsetArm),
        Box::new(FnArm { name: "faulted-openings", quick: 300_000, thorough: 6_000_000, f: fault_scenario }),
        Box::new(FnArm { name: "faulted-single-paths", quick: 100_000, thorough: 2_000_000, f: path_scenario }),
        Box::new(IsoArm {
            check_id: "C10",
            inner: Box::new(FnArm { name: "faulted-single-paths", quick: 30_000, thorough: 500_000, f: path_scenario }),
            timeout_s: 60,
            exe_env: Some("WFSIM_OVF"),
            alias: Some("faulted-single-paths-overflow-checked"),
        }),
        Box::new(IsoArm {
            check_id: "C10",
            inner: Box::new(FnArm { name: "faulted-openings", quick: 60_000, thorough: 1_000_000, f: fault_scenario }),
            timeout_s: 60,
            exe_env: Some("WFSIM_OVF"),
            alias: Some("faulted-openings-overflow-checked"),
        }),
        Box::new(IsoArm {
            check_id: "C10",
            inner: Box::new(FnArm { name: "scheduled-construction", quick: 1_500, thorough: 40_000, f: sched_scenario }),
            timeout_s: 60,
            exe_env: Some("WFSIM_CONC"),
            alias: None,
        }),
    ];
    CheckSpec {
        id: "C10",
        level: "fault_enumeration",
        build: "serial (+ overflow-checking build for one arm, concurrent build under SimRayon for one arm)",
        rule: "fault-free arm, enumerated completely: for trees of 2, 4, 8 and 16 leaves EVERY non-empty position set (3 + 15 + 255 + 65535 per hasher; quick: 2 hashers, thorough: all 6), half of the runs with a taped permutation of the position list: prove_batch / verify_batch / get_root, claimed leaves in list order, into_paths equal to the single openings (each verified), from_paths back to the batch opening. Fault arm, sampled: trees of depth 1..10, 1..255 positions with adjacency patterns (siblings, cousins, all-left, right edge), sorted or not, then one fault on the opening or the position list in transit (17 kinds, incl. 1..768 surplus nodes at the end of a node vector and surplus claimed leaves without positions; a changed leaf or node is either another digest or the same digest with a single bit flipped at any byte, incl. the coordinated 'one more position with an arbitrary claimed leaf'); the same arm also runs in the overflow-checking build inside an isolated worker. Oracle: Ok => every claimed leaf at a queried in-range position equals the committed leaf and the shape is the honest one; never a panic. Scheduled-construction arm (concurrent build, isolated worker): trees of 1024..8192 leaves built by MerkleTree::new under a simulator-chosen pool size (1..64) and task schedule; the root must equal the level-by-level merge of the leaves and the tree's single and batch openings must verify against it. Non-trivial = a fault fired or positions permuted (all runs of the fault arm); distinct = distinct event-log digests.".into(),
        interleaving_measure: "distinct (tree, position list, fault) histories".into(),
        real: vec!["crypto::MerkleTree (new, prove, prove_batch, verify, verify_batch)", "crypto::BatchMerkleProof (get_root, into_paths, from_paths)", "all six hashers"],
        stub: vec!["nothing in the serial arms; rayon (replaced by SimRayon) in the scheduled-construction arm"],
        assumptions: vec!["hash collisions are treated as impossible"],
        arms,
    }
}
