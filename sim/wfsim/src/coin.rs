//! RecordingCoin: a RandomCoin that delegates to DefaultRandomCoin and appends every operation,
//! with arguments and results, to a thread-local history. Substituted for the RandomCoin type
//! parameter of the prover and of verify().

use std::cell::RefCell;

use crypto::{DefaultRandomCoin, Digest, ElementHasher, RandomCoin, RandomCoinError};
use math::{FieldElement, StarkField};

#[derive(Clone, Debug, PartialEq, Eq)]
pub enum CoinOp {
    New { seed_elems: usize, seed_hash: u64 },
    Reseed { data: Vec<u8> },
    Draw { ext_degree: usize, value: Vec<u8>, ok: bool },
    Pow { nonce: u64, zeros: u32 },
    Integers { count: usize, domain: usize, nonce: u64, values: Vec<usize>, ok: bool },
}

impl CoinOp {
    pub fn kind(&self) -> &'static str {
        match self {
            CoinOp::New { .. } => "new",
            CoinOp::Reseed { .. } => "reseed",
            CoinOp::Draw { .. } => "draw",
            CoinOp::Pow { .. } => "pow",
            CoinOp::Integers { .. } => "integers",
        }
    }
    pub fn short(&self) -> String {
        match self {
            CoinOp::New { seed_elems, seed_hash } => format!("new({seed_elems} elems #{:08x})", *seed_hash as u32),
            CoinOp::Reseed { data } => format!("reseed({:02x}{:02x}{:02x}{:02x}..)", data[0], data[1], data[2], data[3]),
            CoinOp::Draw { ext_degree, value, ok } => {
                format!("draw<deg{ext_degree}>{}({:02x}{:02x}..)", if *ok { "" } else { "!ERR" }, value.first().unwrap_or(&0), value.get(1).unwrap_or(&0))
            },
            CoinOp::Pow { nonce, zeros } => format!("pow({nonce})={zeros}"),
            CoinOp::Integers { count, domain, nonce, values, .. } => format!("integers({count},{domain},nonce {nonce})={:?}", &values[..values.len().min(4)]),
        }
    }
}

thread_local! {
    static LOG: RefCell<Vec<CoinOp>> = const { RefCell::new(Vec::new()) };
}

pub fn take_log() -> Vec<CoinOp> {
    LOG.with(|l| std::mem::take(&mut *l.borrow_mut()))
}

pub fn clear_log() {
    LOG.with(|l| l.borrow_mut().clear());
}

fn push(op: CoinOp) {
    LOG.with(|l| {
        let mut l = l.borrow_mut();
        // the prover's nonce search can be long; keep only the first and the last 2 probes
        if let (CoinOp::Pow { .. }, true) = (&op, l.len() > 100_000) {
            return;
        }
        l.push(op)
    });
}

thread_local! {
    /// alias probe: (other nonce, result). When set, a RecordingCoin asked for the query positions
    /// under nonce n also asks two lock-step copies of itself for 64 integers below 2^32 under n
    /// and under the other nonce, and stores whether the two answers are IDENTICAL.
    static ALIAS_PROBE: RefCell<Option<(u64, Option<bool>)>> = const { RefCell::new(None) };
}

pub fn set_alias_probe(other_nonce: u64) {
    ALIAS_PROBE.with(|p| *p.borrow_mut() = Some((other_nonce, None)));
}

/// Some(true): the coin, in the state in which it was asked for the positions, gives identical
/// outputs for the two nonces - they are aliases, not two nonces that happen to select the same
/// positions (identical 2048 bits by chance: never)
pub fn take_alias_probe() -> Option<bool> {
    ALIAS_PROBE.with(|p| p.borrow_mut().take().and_then(|(_, r)| r))
}

pub struct RecordingCoin<H: ElementHasher> {
    inner: DefaultRandomCoin<H>,
    /// two copies kept in lock step (the coin is not Clone), used by the alias probe only
    shadow_a: DefaultRandomCoin<H>,
    shadow_b: DefaultRandomCoin<H>,
}

pub fn elems_hash<B: StarkField>(seed: &[B]) -> u64 {
    simcore::rng::fnv1a(B::elements_as_bytes(seed))
}

impl<B: StarkField, H: ElementHasher<BaseField = B>> RandomCoin for RecordingCoin<H> {
    type BaseField = B;
    type Hasher = H;

    fn new(seed: &[B]) -> Self {
        push(CoinOp::New { seed_elems: seed.len(), seed_hash: elems_hash(seed) });
        RecordingCoin { inner: DefaultRandomCoin::new(seed), shadow_a: DefaultRandomCoin::new(seed), shadow_b: DefaultRandomCoin::new(seed) }
    }

    fn reseed(&mut self, data: H::Digest) {
        push(CoinOp::Reseed { data: data.as_bytes().to_vec() });
        self.shadow_a.reseed(data);
        self.shadow_b.reseed(data);
        self.inner.reseed(data)
    }

    fn check_leading_zeros(&self, value: u64) -> u32 {
        let z = self.inner.check_leading_zeros(value);
        push(CoinOp::Pow { nonce: value, zeros: z });
        z
    }

    fn draw<E: FieldElement<BaseField = B>>(&mut self) -> Result<E, RandomCoinError> {
        let r = self.inner.draw::<E>();
        let _ = self.shadow_a.draw::<E>();
        let _ = self.shadow_b.draw::<E>();
        match &r {
            Ok(e) => push(CoinOp::Draw {
                ext_degree: E::EXTENSION_DEGREE,
                value: E::elements_as_bytes(std::slice::from_ref(e)).to_vec(),
                ok: true,
            }),
            Err(_) => push(CoinOp::Draw { ext_degree: E::EXTENSION_DEGREE, value: vec![], ok: false }),
        }
        r
    }

    fn draw_integers(&mut self, num_values: usize, domain_size: usize, nonce: u64) -> Result<Vec<usize>, RandomCoinError> {
        let probe = ALIAS_PROBE.with(|p| p.borrow().as_ref().map(|(o, _)| *o));
        if let Some(other) = probe {
            let a = self.shadow_a.draw_integers(64, 1usize << 32, nonce);
            let b = self.shadow_b.draw_integers(64, 1usize << 32, other);
            let same = matches!((&a, &b), (Ok(x), Ok(y)) if x == y) && self.inner.check_leading_zeros(nonce) == self.inner.check_leading_zeros(other);
            ALIAS_PROBE.with(|p| *p.borrow_mut() = Some((other, Some(same))));
        } else {
            let _ = self.shadow_a.draw_integers(num_values, domain_size, nonce);
            let _ = self.shadow_b.draw_integers(num_values, domain_size, nonce);
        }
        let r = self.inner.draw_integers(num_values, domain_size, nonce);
        push(CoinOp::Integers {
            count: num_values,
            domain: domain_size,
            nonce,
            values: r.clone().unwrap_or_default(),
            ok: r.is_ok(),
        });
        r
    }
}
