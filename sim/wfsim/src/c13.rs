//! C13 — the streaming byte reader (ReadAdapter over a simulated source) refines the
//! in-memory SliceReader, operation by operation, under every chunking; and under injected
//! source faults it may fail but never returns wrong, duplicated or reordered data.

use std::cell::RefCell;

use simcore::{guard, Arm, CheckSpec, Chooser, Ctx, FnArm, RunInfo};
use utils::{ByteReader, DeserializationError, ReadAdapter, SliceReader};

use crate::simio::{ChunkStyle, ReadFaults, ReadStats, SimRead, World, CHUNK_STYLES};

pub type Res = Result<Vec<u8>, DeserializationError>;

#[derive(Clone, Debug, PartialEq, Eq)]
pub enum Op {
    ReadU8,
    PeekU8,
    ReadBool,
    ReadU16,
    ReadU32,
    ReadU64,
    ReadU128,
    ReadUsize,
    ReadSlice(usize),
    ReadArray(usize),
    ReadVec(usize),
    ReadString(usize),
    ManyU8(usize),
    ManyU16(usize),
    ManyU64(usize),
    ManyPair(usize),
    CheckEor(usize),
    HasMore,
    OptU64,
    VecU8,
}

pub const ARRAY_SIZES: [usize; 18] = [0, 1, 2, 3, 4, 7, 8, 16, 24, 31, 32, 33, 64, 255, 256, 257, 300, 512];

impl Op {
    pub fn kind(&self) -> &'static str {
        match self {
            Op::ReadU8 => "read_u8",
            Op::PeekU8 => "peek_u8",
            Op::ReadBool => "read_bool",
            Op::ReadU16 => "read_u16",
            Op::ReadU32 => "read_u32",
            Op::ReadU64 => "read_u64",
            Op::ReadU128 => "read_u128",
            Op::ReadUsize => "read_usize",
            Op::ReadSlice(_) => "read_slice",
            Op::ReadArray(_) => "read_array",
            Op::ReadVec(_) => "read_vec",
            Op::ReadString(_) => "read_string",
            Op::ManyU8(_) | Op::ManyU16(_) | Op::ManyU64(_) | Op::ManyPair(_) => "read_many",
            Op::CheckEor(_) => "check_eor",
            Op::HasMore => "has_more_bytes",
            Op::OptU64 => "read<Option<u64>>",
            Op::VecU8 => "read<Vec<u8>>",
        }
    }

    /// bytes the operation asks for (hint for the chunk hunter)
    pub fn need(&self) -> usize {
        match self {
            Op::ReadU8 | Op::PeekU8 | Op::ReadBool | Op::HasMore => 1,
            Op::ReadU16 => 2,
            Op::ReadU32 => 4,
            Op::ReadU64 => 8,
            Op::ReadU128 => 16,
            Op::ReadUsize | Op::OptU64 => 9,
            Op::ReadSlice(n) | Op::ReadArray(n) | Op::ReadVec(n) | Op::ReadString(n) | Op::CheckEor(n) => *n,
            Op::ManyU8(k) => *k,
            Op::ManyU16(k) => 2 * k,
            Op::ManyU64(k) => 8 * k,
            Op::ManyPair(k) => 5 * k,
            Op::VecU8 => 12,
        }
    }

    fn consumes(&self) -> bool {
        !matches!(self, Op::PeekU8 | Op::CheckEor(_) | Op::HasMore)
    }

    pub fn describe(&self) -> String {
        format!("{:?}", self)
    }
}

macro_rules! read_array_dispatch {
    ($r:expr, $n:expr, [$($N:literal),*]) => {
        match $n {
            $($N => $r.read_array::<$N>().map(|a| a.to_vec()),)*
            _ => unreachable!("array size not in table"),
        }
    };
}

pub fn apply<R: ByteReader>(op: &Op, r: &mut R) -> Res {
    match op {
        Op::ReadU8 => r.read_u8().map(|v| vec![v]),
        Op::PeekU8 => r.peek_u8().map(|v| vec![v]),
        Op::ReadBool => r.read_bool().map(|v| vec![v as u8]),
        Op::ReadU16 => r.read_u16().map(|v| v.to_le_bytes().to_vec()),
        Op::ReadU32 => r.read_u32().map(|v| v.to_le_bytes().to_vec()),
        Op::ReadU64 => r.read_u64().map(|v| v.to_le_bytes().to_vec()),
        Op::ReadU128 => r.read_u128().map(|v| v.to_le_bytes().to_vec()),
        Op::ReadUsize => r.read_usize().map(|v| (v as u64).to_le_bytes().to_vec()),
        Op::ReadSlice(n) => r.read_slice(*n).map(|s| s.to_vec()),
        Op::ReadArray(n) => {
            read_array_dispatch!(r, *n, [0, 1, 2, 3, 4, 7, 8, 16, 24, 31, 32, 33, 64, 255, 256, 257, 300, 512])
        },
        Op::ReadVec(n) => r.read_vec(*n),
        Op::ReadString(n) => r.read_string(*n).map(|s| s.into_bytes()),
        Op::ManyU8(k) => r.read_many::<u8>(*k),
        Op::ManyU16(k) => r.read_many::<u16>(*k).map(|v| v.iter().flat_map(|x| x.to_le_bytes()).collect()),
        Op::ManyU64(k) => r.read_many::<u64>(*k).map(|v| v.iter().flat_map(|x| x.to_le_bytes()).collect()),
        Op::ManyPair(k) => r.read_many::<(u8, u32)>(*k).map(|v| {
            v.iter()
                .flat_map(|(a, b)| {
                    let mut o = vec![*a];
                    o.extend_from_slice(&b.to_le_bytes());
                    o
                })
                .collect()
        }),
        Op::CheckEor(n) => r.check_eor(*n).map(|_| vec![]),
        Op::HasMore => Ok(vec![r.has_more_bytes() as u8]),
        Op::OptU64 => r.read::<Option<u64>>().map(|v| match v {
            Some(x) => {
                let mut o = vec![1];
                o.extend_from_slice(&x.to_le_bytes());
                o
            },
            None => vec![0],
        }),
        // Vec<u8>::read_from = read_usize + read_many::<u8>(len); read_many pre-allocates from
        // the decoded length (that hazard belongs to C06), so lengths above 4096 stop after the
        // prefix here - identically for the adapter and for the model
        Op::VecU8 => {
            let len = r.read_usize()?;
            if len > 4096 {
                return Ok((len as u64).to_le_bytes().to_vec());
            }
            r.read_many::<u8>(len)
        },
    }
}

/// The model: the real SliceReader (named by the property as the reference semantics) behind a
/// thin wrapper that counts consumed bytes.
pub struct Model<'a> {
    inner: SliceReader<'a>,
    pub consumed: usize,
}

impl<'a> Model<'a> {
    pub fn new(data: &'a [u8]) -> Self {
        Model { inner: SliceReader::new(data), consumed: 0 }
    }
}

impl<'a> ByteReader for Model<'a> {
    fn read_u8(&mut self) -> Result<u8, DeserializationError> {
        let r = self.inner.read_u8();
        if r.is_ok() {
            self.consumed += 1;
        }
        r
    }
    fn peek_u8(&self) -> Result<u8, DeserializationError> {
        self.inner.peek_u8()
    }
    fn read_slice(&mut self, len: usize) -> Result<&[u8], DeserializationError> {
        let r = self.inner.read_slice(len);
        if r.is_ok() {
            self.consumed += len;
        }
        r
    }
    fn read_array<const N: usize>(&mut self) -> Result<[u8; N], DeserializationError> {
        let r = self.inner.read_array::<N>();
        if r.is_ok() {
            self.consumed += N;
        }
        r
    }
    fn check_eor(&self, num_bytes: usize) -> Result<(), DeserializationError> {
        self.inner.check_eor(num_bytes)
    }
    fn has_more_bytes(&self) -> bool {
        self.inner.has_more_bytes()
    }
}

fn err_name(e: &DeserializationError) -> &'static str {
    match e {
        DeserializationError::InvalidValue(_) => "InvalidValue",
        DeserializationError::UnexpectedEOF => "UnexpectedEOF",
        DeserializationError::UnconsumedBytes => "UnconsumedBytes",
        DeserializationError::UnknownError(_) => "UnknownError",
    }
}

fn cands_short(c: &[usize]) -> String {
    if c.len() <= 4 {
        format!("{:?}", c)
    } else {
        format!("{{{} candidates {}..={}}}", c.len(), c.iter().min().unwrap(), c.iter().max().unwrap())
    }
}

fn res_short(r: &Res) -> String {
    match r {
        Ok(v) if v.len() <= 12 => format!("Ok({:02x?})", v),
        Ok(v) => format!("Ok({} bytes {:02x?}..)", v.len(), &v[..8]),
        Err(e) => format!("Err({})", err_name(e)),
    }
}

// WORKLOAD GENERATION
// ------------------------------------------------------------------------------------------------

pub fn gen_stream(ch: &mut Chooser, max_len: u64) -> Vec<u8> {
    let len = ch.biased(
        "stream.len",
        0,
        max_len,
        &[0, 1, 2, 3, 7, 8, 9, 15, 16, 17, 31, 32, 33, 64, 255, 256, 257, 300, 511, 512, 513, 768, 1024, 1200],
    ) as usize;
    let mut data = Vec::with_capacity(len);
    let salt = ch.u64("stream.salt");
    let mut rng = simcore::rng::Xoshiro::from_u64(salt);
    while data.len() < len {
        let seg = 1 + ch.index("stream.seglen", (len - data.len()).min(300));
        let style = ch.weighted("stream.segstyle", &[6, 2, 2, 1, 1]);
        for _ in 0..seg {
            let r = rng.next();
            let b = match style {
                0 => r as u8,                          // random: position identifying
                1 => b' ' + (r % 95) as u8,            // printable ASCII (valid UTF-8)
                2 => (r & 1) as u8,                    // booleans / short vint prefixes
                3 => ((r as u8) | 1).wrapping_shl((r >> 8) as u32 % 4), // small vint lengths
                _ => 0xff,
            };
            data.push(b);
        }
    }
    data
}

pub fn gen_op(ch: &mut Chooser, remaining: usize) -> Op {
    let sizes = [
        0u64,
        1,
        2,
        remaining.saturating_sub(1) as u64,
        remaining as u64,
        remaining as u64 + 1,
        15,
        16,
        17,
        255,
        256,
        257,
        300,
    ];
    let k = ch.weighted(
        "op.kind",
        &[8, 5, 2, 3, 4, 4, 2, 5, 10, 8, 4, 3, 2, 2, 2, 2, 6, 5, 2, 3],
    );
    let mut size = |ch: &mut Chooser, cap: u64| ch.biased("op.n", 0, cap, &sizes) as usize;
    match k {
        0 => Op::ReadU8,
        1 => Op::PeekU8,
        2 => Op::ReadBool,
        3 => Op::ReadU16,
        4 => Op::ReadU32,
        5 => Op::ReadU64,
        6 => Op::ReadU128,
        7 => Op::ReadUsize,
        8 => Op::ReadSlice(size(ch, 600)),
        9 => Op::ReadArray(ARRAY_SIZES[ch.index("op.arrayN", ARRAY_SIZES.len())]),
        10 => Op::ReadVec(size(ch, 600)),
        11 => Op::ReadString(size(ch, 400)),
        12 => Op::ManyU8(size(ch, 300)),
        13 => Op::ManyU16(size(ch, 150)),
        14 => Op::ManyU64(size(ch, 40)),
        15 => Op::ManyPair(size(ch, 60)),
        16 => Op::CheckEor(size(ch, 700)),
        17 => Op::HasMore,
        18 => Op::OptU64,
        _ => Op::VecU8,
    }
}

#[derive(Clone, Copy, PartialEq, Eq, Debug)]
pub enum Mode {
    Strict,
    IoError,
    TransientEof,
}

// THE SCENARIO
// ------------------------------------------------------------------------------------------------

pub fn scenario(mode: Mode, _info: &RunInfo, ch: &mut Chooser, ctx: &mut Ctx) {
    let arm = match mode {
        Mode::Strict => "strict",
        Mode::IoError => "io-error",
        Mode::TransientEof => "transient-eof",
    };
    let data = gen_stream(ch, 1200);
    let style = CHUNK_STYLES[ch.weighted("chunk.style", &[1, 2, 2, 3, 4, 4])];
    let k = ch.biased("chunk.k", 1, 300, &[2, 3, 4, 5, 7, 8, 9, 15, 16, 17, 128, 255, 256]) as usize;
    let nops = ch.range("ops.count", 1, 40) as usize;
    let faults = match mode {
        Mode::Strict => ReadFaults::default(),
        Mode::IoError => ReadFaults {
            interrupted: true,
            would_block: true,
            other: true,
            unexpected_eof: true,
            transient_zero: false,
            budget: 1 + ch.index("fault.budget", 2) as u32,
        },
        Mode::TransientEof => ReadFaults { transient_zero: true, budget: 1 + ch.index("fault.budget", 2) as u32, ..Default::default() },
    };
    ctx.event_with("setup", data.len() as u64, || {
        format!("stream of {} bytes, chunk style {:?} k={}, {} operations planned, mode {}", data.len(), style, k, nops, arm)
    });
    if style != ChunkStyle::Full {
        ctx.nontrivial = true;
    }

    let stats = ReadStats::default();
    let world = RefCell::new(World { ch, ctx });
    let mut src = SimRead::new(&world, &data, style, k, faults, &stats);
    let mut adapter = ReadAdapter::new(&mut src);

    // candidate model positions (exactly one in strict mode)
    let mut cands: Vec<usize> = vec![0];
    let mut step = 0usize;
    let mut draining = false;
    let mut drain_steps = 0usize;
    // after the adapter has reported end of data (transient-eof arm) it must not fabricate data;
    // it may, however, legitimately find the real remaining bytes later
    loop {
        let max_pos = *cands.iter().max().unwrap();
        let min_pos = *cands.iter().min().unwrap();
        let op = {
            let mut w = world.borrow_mut();
            let World { ch, .. } = &mut *w;
            if !draining {
                if step >= nops {
                    draining = true;
                }
            }
            if draining {
                if min_pos >= data.len() || drain_steps > 4000 {
                    break;
                }
                drain_steps += 1;
                let rem = data.len() - min_pos;
                match ch.weighted("drain.kind", &[3, 2, 1]) {
                    0 => Op::ReadSlice(1 + ch.index("drain.n", rem.min(300))),
                    1 => Op::ReadVec(1 + ch.index("drain.n", rem.min(64))),
                    _ => Op::ReadU8,
                }
            } else {
                gen_op(ch, data.len() - max_pos.min(data.len()))
            }
        };
        step += 1;
        let eof_before = stats.eof_reported.get();
        stats.begin_op(op.need());
        let sut = guard(|| apply(&op, &mut adapter));
        let faulted = stats.faults_this_op.get() > 0;
        let mut w = world.borrow_mut();
        let World { ctx, .. } = &mut *w;
        if stats.calls_this_op.get() == 0 {
            ctx.probe("op_served_from_buffers_only");
        }
        let sut = match sut {
            Ok(r) => r,
            Err(p) => {
                ctx.event_with("op", step as u64, || format!("{} -> PANIC {}", op.describe(), p.msg));
                ctx.violation(
                    format!("C13/{arm}/{}/panic {}", op.kind(), p.signature()),
                    format!(
                        "step {step} {} panicked at {}:{}: {} (stream {} bytes, model position {:?}, source handed out {})",
                        op.describe(), p.file, p.line, p.msg, data.len(), cands, stats.handed_out.get()
                    ),
                );
                return;
            },
        };
        ctx.event_with("op", simcore::rng::fnv1a(format!("{:?}{:?}", op, sut).as_bytes()), || {
            format!("{} -> {}   [model pos {}, source handed out {}]", op.describe(), res_short(&sut), cands_short(&cands), stats.handed_out.get())
        });

        // relaxed arms, once a source fault has fired: the adapter may latch "end of data" (it
        // sets its eof flag on any source error), so a pessimistic answer of a look-ahead
        // operation is tolerated and says nothing about the position
        if mode != Mode::Strict && stats.faults_total.get() > 0 {
            let pessimistic = match (&op, &sut) {
                (Op::CheckEor(_) | Op::PeekU8, Err(DeserializationError::UnexpectedEOF)) => true,
                (Op::HasMore, Ok(v)) => v == &[0u8],
                _ => false,
            };
            if pessimistic {
                ctx.probe("pessimistic_lookahead_after_fault");
                continue;
            }
        }
        if cands.len() > 1024 {
            ctx.probe("candidate_set_too_large_run_ended");
            return;
        }

        // evaluate the model at every candidate position
        let mut next: Vec<usize> = vec![];
        let mut first_model: Option<Res> = None;
        for &p in &cands {
            let p = p.min(data.len());
            let mut m = Model::new(&data[p..]);
            let mr = apply(&op, &mut m);
            let np = p + m.consumed;
            let ok = match (&op, &sut, &mr) {
                (Op::CheckEor(_), Ok(_), Ok(_)) => true,
                (Op::CheckEor(_), Err(a), Err(b)) => a == b,
                // optimistic only before the end of the stream has been observed
                (Op::CheckEor(_), Ok(_), Err(_)) => !eof_before,
                (Op::CheckEor(_), Err(_), Ok(_)) => false,
                _ => sut == mr,
            };
            if first_model.is_none() {
                first_model = Some(mr);
            }
            if ok && !next.contains(&np) {
                next.push(np);
            }
        }
        let relaxed = mode != Mode::Strict && faulted;
        if !next.is_empty() && !(relaxed && sut.is_err()) {
            cands = next;
            continue;
        }

        // no candidate explains the result (or the operation failed on an injected fault, in
        // which case an equal error from the model says nothing about the position)
        let model = first_model.unwrap();
        if relaxed {
            // the operation met an injected source fault: it may fail (or answer "no more
            // bytes"), leaving the position anywhere inside the range it was reading; it may
            // not succeed with data that is not stream data at a candidate position
            let failed = match (&op, &sut) {
                (_, Err(_)) => true,
                (Op::HasMore, Ok(v)) => v == &[0u8],
                _ => false,
            };
            if failed {
                let reach = if op.consumes() {
                    match op {
                        Op::VecU8 => 9 + 4096,
                        _ => op.need(),
                    }
                } else {
                    0
                };
                let mut widened = vec![];
                for &p in &cands {
                    for q in p..=(p + reach).min(data.len()) {
                        if !widened.contains(&q) {
                            widened.push(q);
                        }
                    }
                }
                ctx.probe("relaxed_after_fault");
                cands = widened;
                continue;
            }
        }
        let how = match (&sut, &model) {
            (Ok(_), Ok(_)) => "value-differs".to_string(),
            (Err(e), Ok(_)) => format!("spurious-{}", err_name(e)),
            (Ok(_), Err(e)) => format!("missing-{}", err_name(e)),
            (Err(a), Err(b)) => format!("error-{}-instead-of-{}", err_name(a), err_name(b)),
        };
        ctx.violation(
            format!("C13/{arm}/{}/{how}", op.kind()),
            format!(
                "step {step}: {} returned {} but the slice reader at position {} of the {}-byte stream returns {}; chunk style {:?} k={}, source handed out {} bytes in {} reads, end of stream observed before the call: {}",
                op.describe(), res_short(&sut), cands_short(&cands), data.len(), res_short(&model), style, k, stats.handed_out.get(), stats.calls.get(), eof_before
            ),
        );
        return;
    }

    // after draining: nothing left, and the source handed out exactly the stream
    if mode == Mode::Strict && drain_steps <= 4000 {
        stats.begin_op(1);
        let more = guard(|| adapter.has_more_bytes());
        let last = guard(|| adapter.read_u8());
        let mut w = world.borrow_mut();
        let World { ctx, .. } = &mut *w;
        match (more, last) {
            (Ok(false), Ok(Err(DeserializationError::UnexpectedEOF))) => {},
            (m, l) => ctx.violation(
                format!("C13/{arm}/drain/not-at-end"),
                format!("after reading all {} bytes: has_more_bytes = {:?}, read_u8 = {:?}", data.len(), m.ok(), l.ok()),
            ),
        }
        if stats.handed_out.get() != data.len() {
            ctx.violation(
                format!("C13/{arm}/drain/source-bytes-unaccounted"),
                format!("source handed out {} of {} bytes although the reader reports end of data", stats.handed_out.get(), data.len()),
            );
        }
        ctx.probe("drained_to_eof");
    } else {
        world.borrow_mut().ctx.probe("ended_without_strict_drain");
    }
}

pub fn spec() -> CheckSpec {
    let arms: Vec<Box<dyn Arm>> = vec![
        Box::new(FnArm { name: "strict", quick: 300_000, thorough: 6_000_000, f: |i: &RunInfo, c: &mut Chooser, x: &mut Ctx| scenario(Mode::Strict, i, c, x) }),
        Box::new(FnArm { name: "io-error", quick: 100_000, thorough: 2_000_000, f: |i: &RunInfo, c: &mut Chooser, x: &mut Ctx| scenario(Mode::IoError, i, c, x) }),
        Box::new(FnArm { name: "transient-eof", quick: 50_000, thorough: 1_000_000, f: |i: &RunInfo, c: &mut Chooser, x: &mut Ctx| scenario(Mode::TransientEof, i, c, x) }),
    ];
    CheckSpec {
        id: "C13",
        level: "exploration",
        build: "serial",
        rule: "one run = one generated byte stream (0..1200 bytes, mixed segment styles) x one chunking style of the simulated std::io::Read source (full / 1-byte / fixed-k / uniform / boundary-hunting / mixed) x 1..40 generated ByteReader operations followed by a drain to end of data; after every operation the ReadAdapter's result is compared with the real SliceReader's result at the model position. A run is non-trivial when the source split the stream differently from one maximal chunk per request or a source fault fired; distinct = distinct event-log digests (operations, results, every source read with offset and length, every fault) among non-trivial runs.".into(),
        interleaving_measure: "distinct (operation sequence, chunk boundary sequence, fault placement) histories, counted as distinct event-log digests".into(),
        real: vec!["utils::ReadAdapter (all of it, incl. std BufReader)", "utils::SliceReader (the reference model)", "ByteReader provided methods, Deserializable impls for Option/Vec/tuples/ints"],
        stub: vec!["the byte source behind &mut dyn std::io::Read (SimRead)"],
        assumptions: vec![
            "check_eor may answer Ok optimistically only while the source has not yet returned its end-of-stream Ok(0) (the property's carve-out)",
            "io-error / transient-eof arms: an operation that met an injected source fault may fail and leave the position anywhere inside the range it was reading; it may never return bytes that are not the stream's bytes at a candidate position",
            "a transient Ok(0) is indistinguishable from end of stream for any std::io::Read consumer, so it is treated as a fault, not as a chunking",
        ],
        arms,
    }
}
