#!/bin/bash
# tools/bg_thorough.sh <seed> [tier] [ids...] - for `vp run --with-repo`: runs every claimed check in the
# given tier with VERIF_SEED=<seed> against the *snapshot* of /repo ($VP_RUN_REPO), so that
# mutants applied to /repo meanwhile cannot disturb it. Hunting tool only (false alarms / new
# defects under other seeds); never a source of evidence.
set -u
seed="${1:-2}"; tier="${2:-thorough}"; shift 2 2>/dev/null
ids="${*:-C01 C02 C03 C04 C05 C06 C10 C12 C13 C14 C15 C19}"
if [ -n "${VP_RUN_REPO:-}" ]; then
  sed -i "s#\"/repo/#\"$VP_RUN_REPO/#g" sim/wfsim/Cargo.toml sim-miri/Cargo.toml sim-miri-rayon/Cargo.toml
fi
export VERIF_SEED="$seed"
for id in $ids; do
  s=$(date +%s)
  ./check "$id" "$tier" > "bg_$id.log" 2>&1; rc=$?
  echo "== $id seed=$seed tier=$tier rc=$rc $(( $(date +%s) - s ))s"
  grep -E "^VIOLATION|^  class|HARNESS" "bg_$id.log" | head -20
done
