#!/bin/bash
# tools/scratch_env.sh <dir>   - builds a private copy of the whole set-up under <dir>:
#   <dir>/repo   a detached git worktree of /repo's HEAD
#   <dir>/verif  a copy of /verif (no build output) whose Cargo manifests point at <dir>/repo
# so that breaking changes can be applied and checked without touching /repo or /verif.
# Remove with: tools/scratch_env.sh --remove <dir>
set -eu
if [ "$1" = "--remove" ]; then
  git -C /repo worktree remove --force "$2/repo" 2>/dev/null || true
  rm -rf "$2"; git -C /repo worktree prune; exit 0
fi
d="$1"; mkdir -p "$d"
[ -d "$d/repo" ] || git -C /repo worktree add --detach "$d/repo" HEAD >/dev/null
# follow /repo's HEAD (the worktree is only ever modified by applying and reverting patches)
if git -C "$d/repo" diff --quiet; then git -C "$d/repo" checkout -q --detach "$(git -C /repo rev-parse HEAD)"; fi
# no -t: a changed file gets the time of the copy, so cargo (mtime fingerprints) rebuilds it even when
# the scratch build is newer than the edit in /verif
rsync -rlpD --checksum --delete --exclude target --exclude replays --exclude .git /verif/ "$d/verif/"
sed -i "s#\"/repo/#\"$d/repo/#g" "$d/verif/sim/wfsim/Cargo.toml" "$d/verif/sim-miri/Cargo.toml" "$d/verif/sim-miri-rayon/Cargo.toml"
echo "$d"
