#!/usr/bin/env python3-vt
import json, sys, glob, jsonschema
m = json.load(open('/verif/MANIFEST.json'))
jsonschema.validate(m, json.load(open('/root/.vp/MANIFEST.schema.json')))
es = json.load(open('/root/.vp/EVIDENCE.schema.json'))
for c in m['checks']:
    p = '/verif/' + c['evidence_file']
    try:
        e = json.load(open(p))
        jsonschema.validate(e, es)
        assert e['level'] == c['level_claimed']['category'], (p, 'level mismatch')
        print('ok', p, e['tier'], e['coverage']['evaluations'], e['coverage']['distinct_nontrivial'])
    except FileNotFoundError:
        print('MISSING', p)
props = [json.loads(l)['id'] for l in open('/verif/properties.jsonl')]
claimed = {c['property_id'] for c in m['checks']}
na = {c['property_id'] for c in m.get('not_applicable', [])}
print('claimed', sorted(claimed)); print('n/a', sorted(na)); print('neither', sorted(set(props) - claimed - na))
