#!/usr/bin/env python3
"""tools/assemble_status.py <rows-file>...  - merges the table rows written by several (parallel,
partial) tools/run_seeded.sh passes into seeded/STATUS.md; for an id that occurs more than once the
LAST occurrence wins (re-runs after a check was strengthened)."""
import re, sys, json, os
rows = {}
for f in sys.argv[1:]:
    for l in open(f):
        m = re.match(r'\| (C\d\d)-(\d+)', l)
        if m:
            rows[(m.group(1), int(m.group(2)))] = l.rstrip('\n')
out = ["# Seeded changes vs checks (tier: quick)", "",
 "Each change compiles, passes the unchanged 220-test suite, and breaks the named property",
 "(confirmed with its demo in a scratch worktree, see <id>/confirm.log). 'rebased' = the patch",
 "was re-created on top of later fix: commits that touched the same lines; 'checked with' = the",
 "change is detected by the named check rather than by the check of the property its author was",
 "given (the reason is in <id>/meta.json and in DESIGN.md section 9). Runs were made in private",
 "copies of /repo and /verif (tools/scratch_env.sh), never in /repo itself.", "",
 "| id | property | detected | exit | violation classes reported (first 3) |", "|---|---|---|---|---|"]
for k in sorted(rows):
    out.append(rows[k])
n = len(rows)
yes = sum(1 for v in rows.values() if '| yes |' in v)
out += ["", f"{n} changes, {yes} detected, {n-yes} other (obsolete / not applicable rows are explained in their row).", "",
        "Own sensitivity mutants (seeded/own/*.diff) are listed in DESIGN.md."]
open('/verif/seeded/STATUS.md', 'w').write('\n'.join(out) + '\n')
print(n, 'rows,', yes, 'detected')
missing = [d for d in sorted(os.listdir('/verif/seeded')) if re.match(r'C\d\d-\d+$', d) and (d[:3], int(d[4:])) not in rows]
print('missing:', missing)
