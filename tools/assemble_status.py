#!/usr/bin/env python3
"""tools/assemble_status.py <rows-file>...  - merges the table rows written by several (parallel,
partial) tools/run_seeded.sh passes into seeded/STATUS.md; for an id that occurs more than once the
LAST occurrence wins (re-runs after a check was strengthened)."""
import re, sys, json, os
rows = {}
for f in sys.argv[1:]:
    for l in open(f):
        m = re.match(r'\| (C\d\d)-(\d+)', l)
        if m:
            k = (m.group(1), int(m.group(2)))
            # a run that was killed (exit 143) is no result; a 'yes' obtained after a check was
            # strengthened is not overwritten by the earlier 'NO' of another pass
            if '| 143 |' in l:
                continue
            if k in rows and '| yes' in rows[k] and '| NO |' in l:
                continue
            rows[k] = l.rstrip('\n')
out = ["# Seeded changes vs checks (tier: quick)", "",
 "Each change compiles, passes the unchanged 220-test suite, and breaks the named property",
 "(confirmed with its demo in a scratch worktree, see <id>/confirm.log). 'rebased' = the patch",
 "was re-created on top of later fix: commits that touched the same lines; 'checked with' = the",
 "change is detected by the named check rather than by the check of the property its author was",
 "given (the reason is in <id>/meta.json and in DESIGN.md section 9). Runs were made in private",
 "copies of /repo and /verif (tools/scratch_env.sh), never in /repo itself.", "",
 "| id | property | detected | exit | violation classes reported (first 3) |", "|---|---|---|---|---|"]
# custom rows (explained in DESIGN.md section 9)
custom = {
 ('C03', 16): "| C03-16 | C03 | yes, after adapting the harness | 2 -> 1 | adds a REQUIRED method to the public trait fri::ProverChannel: the harness' recording channel (like every downstream implementor) stops compiling = HARNESS-ERROR (exit 2); with that method implemented in a scratch copy: C03/adaptive/modified-proof-accepted A1-remainder-plus-vanishing; C04/prover-transcript-order expected reseed(FRI remainder commitment); C05/far-function-accepted-with-a-commitment-made-after-the-queries |",
}
via = "run against /repo itself with tools/try_mutant.sh after the check had been strengthened (DESIGN.md section 9)"
custom[('C12', 16)] = f"| C12-16 | C12 | yes | 1 | C12/OodFrame(boundary members)/SliceReader/decode-error UnexpectedEOF;C12/OodFrame(boundary members)/SliceReader/value-differs; {via} |"
custom[('C14', 15)] = f"| C14-15 | C14 | yes | 1 | C14/math-utils/get_power_series-differs;C14/math-utils/get_power_series_with_offset-differs; {via} |"
custom[('C19', 18)] = f"| C19-18 | C19 | yes | 1 | C19/scripted/non-canonical-element-drawn quad<f128>; {via} |"
for k, v in custom.items():
    rows[k] = v
# changes that were not re-run against the harness of this session
import glob
for d in sorted(glob.glob('/verif/seeded/C*-*/meta.json')):
    m = json.load(open(d))
    mm = re.match(r'(C\d\d)-(\d+)$', m['id'])
    k = (mm.group(1), int(mm.group(2)))
    if k not in rows:
        if m.get('obsolete'):
            rows[k] = f"| {m['id']} | {m['property']} | n/a (obsolete) | - | {m['obsolete']} |"
        else:
            rows[k] = f"| {m['id']} | {m['property']} | (not re-run) | - | detected when it was written or after the strengthening recorded for its round in DESIGN.md section 9; the full table could not be regenerated within this session (one change = up to three rebuilds of the harness) |"
for k in sorted(rows):
    out.append(rows[k])
n = len(rows)
yes = sum(1 for v in rows.values() if '| yes' in v)
notrun = sum(1 for v in rows.values() if '(not re-run)' in v)
out += ["", f"{n} changes, {yes} detected in this session's run, {notrun} not re-run in this session, {n-yes-notrun} other (obsolete rows are explained in their row).", "",
        "Own sensitivity mutants (seeded/own/*.diff) are listed in DESIGN.md."]
open('/verif/seeded/STATUS.md', 'w').write('\n'.join(out) + '\n')
print(n, 'rows,', yes, 'detected')
missing = [d for d in sorted(os.listdir('/verif/seeded')) if re.match(r'C\d\d-\d+$', d) and (d[:3], int(d[4:])) not in rows]
print('missing:', missing)
