#!/bin/bash
# tools/confirm_mutant.sh <worktree> <mutdir> <demo-dest-relative-path> <cargo test args for demo...>
# Confirms: patch applies; suite passes with patch; demo fails with patch; demo passes without.
# Writes <mutdir>/confirm.log ; prints a one-line verdict.
set -u
wt="$1"; md="$2"; dest="$3"; shift 3
log="$md/confirm.log"; : > "$log"
cd "$wt" || exit 2
git checkout -q -- . ; git clean -fdq -e target
git apply "$md/patch.diff" >>"$log" 2>&1 || { echo "CONFIRM $md: patch does not apply"; exit 1; }
echo "### suite with patch" >>"$log"
cargo test --workspace --no-fail-fast --offline >>"$log.suite" 2>&1; suite_rc=$?
grep -E "^test result|FAILED|failed" "$log.suite" | sort | uniq -c >>"$log"
mkdir -p "$(dirname "$dest")"; cp "$md/demo.rs" "$dest"
echo "### demo with patch" >>"$log"
cargo test --offline "$@" >>"$log.demo_with" 2>&1; with_rc=$?
tail -15 "$log.demo_with" >>"$log"
git checkout -q -- .
echo "### demo without patch" >>"$log"
cargo test --offline "$@" >>"$log.demo_without" 2>&1; without_rc=$?
tail -8 "$log.demo_without" >>"$log"
rm -f "$dest"; git clean -fdq -e target
echo "CONFIRM $md: suite_rc=$suite_rc demo_with_rc=$with_rc (want !=0) demo_without_rc=$without_rc (want 0)"
