#!/bin/bash
# tools/try_mutant.sh <patch.diff> <property> [quick|thorough]
# applies the patch to /repo, runs the check, reverts. Prints the verdict.
set -u
patch="$1"; id="$2"; tier="${3:-quick}"
cd /repo || exit 2
if ! git diff --quiet; then echo "repo dirty, refusing"; exit 2; fi
git apply "$patch" || { echo "patch does not apply"; exit 2; }
cd /verif
out=$(./check "$id" "$tier" 2>&1); rc=$?
git -C /repo checkout -- .
echo "$out" | grep -E "^(VIOLATION|KNOWN-FINDING|  class|HARNESS|property=)" | head -20
echo "exit=$rc"
