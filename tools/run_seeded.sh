#!/bin/bash
# tools/run_seeded.sh [tier]  - applies every seeded change to /repo in turn, runs the quick check
# of the property it breaks, reverts, and writes seeded/STATUS.md. Uses /repo itself: do not run
# anything else against /repo meanwhile.
set -u
tier="${1:-quick}"
# SEED_VERIF / SEED_REPO: run against a private copy made by tools/scratch_env.sh
V="${SEED_VERIF:-/verif}"; R="${SEED_REPO:-/repo}"
cd "$V"
out=seeded/STATUS.md
{
echo "# Seeded changes vs checks (tier: $tier)"
echo
echo "Each change compiles, passes the unchanged 220-test suite, and breaks the named property"
echo "(confirmed with its demo in a scratch worktree, see <id>/confirm.log). 'rebased' = the patch"
echo "was re-created on top of later fix: commits that touched the same lines."
echo
echo "| id | property | detected | exit | violation classes reported (first 3) |"
echo "|---|---|---|---|---|"
} > $out
for d in seeded/C*/; do
  id=$(basename $d)
  if [ -n "${SEED_IDS:-}" ] && ! echo " $SEED_IDS " | grep -q " $id "; then continue; fi
  prop=$(python3 -c "import json;print(json.load(open('$d/meta.json'))['property'])")
  with=$(python3 -c "import json;d=json.load(open('$d/meta.json'));print(d.get('check_with',d['property']))")
  obsolete=$(python3 -c "import json;print(json.load(open('$d/meta.json')).get('obsolete',''))")
  if [ -n "$obsolete" ]; then echo "| $id | $prop | n/a (obsolete) | - | $obsolete |" >> $out; continue; fi
  patch=$d/patch.diff; note=""
  if [ -f $d/patch.rebased.diff ]; then patch=$d/patch.rebased.diff; note=" (rebased)"; fi
  if ! git -C "$R" diff --quiet; then echo "repo dirty"; exit 2; fi
  if ! git -C "$R" apply $(pwd)/$patch 2>/dev/null; then
    echo "| $id | $prop | patch does not apply | - | |" >> $out; continue
  fi
  log=$(./check $with $tier 2>&1); rc=$?
  git -C "$R" checkout -- .
  classes=$(echo "$log" | grep -E "^  class:" | sed 's/  class: //' | head -3 | tr '\n' ';' | sed 's/|/\\|/g')
  det="NO"; [ $rc -eq 1 ] && det="yes"
  [ "$with" != "$prop" ] && note="$note (checked with $with)"
  echo "| $id$note | $prop | $det | $rc | $classes |" >> $out
done
echo >> $out
echo "Own sensitivity mutants (seeded/own/*.diff) are listed in DESIGN.md." >> $out
cat $out
