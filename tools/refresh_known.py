#!/usr/bin/env python3
"""Refreshes the committed replay files of the KNOWN findings from /verif/replays (written by the
last run of the checks). Run after `./check <id> quick` for every property that has known
findings. Never adds findings; only re-points the `replay` of entries that are already listed."""
import json, glob, hashlib, shutil, os
root = '/verif'
k = json.load(open(f'{root}/known_findings.json'))
by_class = {}
for f in sorted(glob.glob(f'{root}/replays/*.json')):
    d = json.load(open(f))
    # prefer arms of the serial build
    key = (d['property'], d['class'])
    if key not in by_class or 'overflow' in by_class[key][1]:
        by_class[key] = (f, d['arm'])
for e in k['findings']:
    if e['status'] != 'known':
        continue
    key = (e['property'], e['class'])
    if key in by_class:
        h = hashlib.sha1(e['class'].encode()).hexdigest()[:10]
        dst = f"known/{e['property']}-{h}.json"
        shutil.copy(by_class[key][0], f'{root}/{dst}')
        if e.get('replay') and e['replay'] != dst and os.path.exists(f"{root}/{e['replay']}"):
            os.remove(f"{root}/{e['replay']}")
        e['replay'] = dst
        print('refreshed', dst, e['class'][:70])
    else:
        print('NOT FOUND in replays/ (kept as is):', e['class'][:90])
json.dump(k, open(f'{root}/known_findings.json', 'w'), indent=1)
