//! Miri arm of C14 (real-thread arm): REAL rayon on a small pool under Miri's seeded scheduler
//! with pre-emption, for the two functions that share one slice between tasks through aliased
//! `&mut` (crypto::concurrent::build_merkle_nodes, math::fft permute via evaluate_poly). Results
//! are compared with the single-threaded functions in the same process. Miri's scheduler is
//! deterministic per `-Zmiri-seed`, so a failure replays.
//! usage: cargo +nightly miri run -- <threads> <what: merkle|fft>

use crypto::{hashers::Blake3_256, Hasher};
use math::{fft, fields::f64::BaseElement, FieldElement};
use utils::rayon;

type H = Blake3_256<BaseElement>;

fn main() {
    let a: Vec<String> = std::env::args().collect();
    let threads: usize = a.get(1).and_then(|v| v.parse().ok()).unwrap_or(3);
    let what = a.get(2).map(|s| s.as_str()).unwrap_or("merkle").to_string();
    let pool = rayon::ThreadPoolBuilder::new().num_threads(threads).build().expect("pool");
    let mut bad = 0;
    if what == "merkle" {
        // 64 leaves: small enough for Miri, all code paths of the concurrent builder are taken
        let leaves: Vec<<H as Hasher>::Digest> = (0..64u64).map(|i| H::hash(&i.to_le_bytes())).collect();
        let serial = crypto::build_merkle_nodes::<H>(&leaves);
        let conc = pool.install(|| crypto::concurrent::build_merkle_nodes::<H>(&leaves));
        // node 0 is unused padding
        if serial[1..] != conc[1..] {
            println!("MIRI-ARM violation C14/real-threads/merkle-nodes-differ pool={threads}");
            bad += 1;
        }
    } else {
        // evaluate_poly at 1024 elements takes the concurrent path (split-radix + permute)
        let n = 1024usize;
        let p: Vec<BaseElement> = (0..n as u64).map(|i| BaseElement::new(i * i + 7)).collect();
        let tw = fft::get_twiddles::<BaseElement>(n);
        let mut serial = p.clone();
        fft::serial_fft(&mut serial, &tw);
        let mut conc = p.clone();
        pool.install(|| fft::evaluate_poly(&mut conc, &tw));
        if serial != conc {
            println!("MIRI-ARM violation C14/real-threads/fft-differs pool={threads}");
            bad += 1;
        }
        let _ = BaseElement::ZERO;
    }
    println!("c14 miri arm: {what} on a real pool of {threads} threads, {bad} differences");
    if bad > 0 {
        std::process::exit(1);
    }
}
